#!/bin/bash
# seedall.sh <seed ids...> : run each seeded change through its check (scratch worktree), summary in /tmp/seedall.log
cd /verif
for id in "$@"; do
  s=$(date +%s)
  r=$(tools/run_seed.sh $id 2>&1 | head -4 | tr '\n' ' ' | cut -c1-500)
  e=$(date +%s)
  echo "$id wall=$((e-s))s $r" >> /tmp/seedall.log
done
echo DONE >> /tmp/seedall.log
