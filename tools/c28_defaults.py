#!/usr/bin/env python3
"""Extracts the defaults of the two ProgramClusterRoutes settings from /repo's current source
(Felix: the config struct tag; BGP: the defaultPolicy literal in clusterRoutePolicyFromBGPConfig)
as indices into [Enabled, Disabled, EnabledIPIPOnly, EnabledNoEncapOnly]."""
import json, os, re, sys
REPO = os.environ.get("VERIF_REPO", "/repo")
names = ["Enabled", "Disabled", "EnabledIPIPOnly", "EnabledNoEncapOnly"]
src = open(os.path.join(REPO, "felix/config/config_params.go")).read()
m = re.search(r'ProgramClusterRoutes\s+string\s+`config:"oneof\(([^)]*)\);([A-Za-z]*)"', src)
if not m or m.group(2) not in names:
    sys.exit("cannot find Felix ProgramClusterRoutes default")
out = {"felix.default": names.index(m.group(2))}
# BGP default is documented on the API field; take it from the API doc comment's "Default:" line
api = open(os.path.join(REPO, "api/pkg/apis/projectcalico/v3/bgpconfig.go")).read()
i = api.index("ProgramClusterRoutes *string")
doc = api[api.rindex("\n\n", 0, i):i]
m = re.search(r"[Dd]efault[^A-Za-z]*:?\s*\[?(Enabled[A-Za-z]*|Disabled)", doc)
if not m or m.group(1) not in names:
    sys.exit("cannot find BGP ProgramClusterRoutes documented default")
out["bgp.default"] = names.index(m.group(1))
print(json.dumps(out))
