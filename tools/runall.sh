#!/bin/bash
# runall.sh <tier> <ids...> : run checks sequentially, logs in /tmp/chk_<id>.log, summary in /tmp/runall.log
tier=$1; shift
cd /verif
for id in "$@"; do
  s=$(date +%s)
  timeout 2400 ./check $id --tier $tier > /tmp/chk_$id.log 2>&1; rc=$?
  e=$(date +%s)
  echo "$id exit=$rc wall=$((e-s))s $(tail -n 1 /tmp/chk_$id.log | cut -c1-200)" >> /tmp/runall.log
done
echo DONE >> /tmp/runall.log
