#!/usr/bin/env python3
"""clayout.py: dumps the record layouts of the BPF C structures with clang (stub libbpf headers in
/verif/cstub) from /repo's current felix/bpf-gpl headers and prints them as JSON parameters:
  c.<struct>.<field path>      = byte offset
  c.<struct>.<field path>.bit  = bit offset inside the byte-aligned storage unit (bitfields)
  c.sizeof.<struct>            = size
The IPv6 build (-DIPVER6) is reported with the prefix c6 instead of c.
Anonymous struct/union levels do not appear in the field path."""
import json, os, re, subprocess, sys, tempfile

REPO = os.environ.get("VERIF_REPO", "/repo")
STRUCTS = ["cali_tc_state", "calico_ct_key", "calico_ct_value", "calico_nat_key", "calico_nat_value", "calico_nat_dest", "calico_nat_secondary_key", "calico_nat_affinity_key", "calico_ct_leg", "ip_set_key"]
probe = '#include "types.h"\n#include "conntrack_types.h"\n#include "nat_types.h"\n#include "policy.h"\n'
for i, s in enumerate(STRUCTS):
    probe += "int sz%d = sizeof(struct %s);\n" % (i, s)

def layout(prefix, defines):
    with tempfile.TemporaryDirectory() as d:
        pc = os.path.join(d, "probe.c")
        open(pc, "w").write(probe)
        cmd = ["clang", "-target", "bpf", "-D__x86_64__", "-D__TARGET_ARCH_x86", "-DCALI_COMPILE_FLAGS=0"] + defines + ["-I", "/verif/cstub",
               "-I", os.path.join(REPO, "felix/bpf-gpl"), "-I", "/usr/include/x86_64-linux-gnu", "-fsyntax-only", "-Xclang", "-fdump-record-layouts", pc]
        r = subprocess.run(cmd, capture_output=True, text=True)
        if r.returncode != 0:
            sys.stderr.write(r.stderr[-3000:])
            sys.exit(3)
    out = {}
    cur = None
    stack = []  # (indent, name or None)
    for line in r.stdout.splitlines():
        m = re.match(r"\s*([0-9]+)(?::([0-9]+)-([0-9]+))? \| (\s*)(.*)$", line)
        if not m:
            m2 = re.match(r"\s*\| \[sizeof=(\d+)", line)
            if m2 and cur:
                out[prefix + ".sizeof." + cur] = int(m2.group(1))
                cur = None
            continue
        off, bit_lo, indent, decl = int(m.group(1)), m.group(2), len(m.group(4)), m.group(5).strip()
        if indent == 0:
            mm = re.match(r"struct (\w+)$", decl)
            cur = mm.group(1) if mm and mm.group(1) in STRUCTS and (prefix + ".sizeof." + mm.group(1)) not in out else None
            stack = []
            continue
        if cur is None:
            continue
        while stack and stack[-1][0] >= indent:
            stack.pop()
        if "(anonymous at" in decl or "(unnamed at" in decl:
            stack.append((indent, None))
            continue
        name = decl.split()[-1]
        name = re.sub(r"\[.*$", "", name)
        path = [n for _, n in stack if n] + [name]
        key = "%s.%s.%s" % (prefix, cur, ".".join(path))
        if key not in out:
            out[key] = off
            if bit_lo is not None:
                out[key + ".bit"] = int(bit_lo)
        stack.append((indent, name))
    return out


res = layout("c", [])            # IPv4 build
res.update(layout("c6", ["-DIPVER6"]))  # IPv6 build
json.dump(res, sys.stdout, indent=0, sort_keys=True)
