#!/bin/bash
# run_seed.sh <seed-id> [property-id] [tier]: check a seeded change in a scratch worktree of /repo
# (VERIF_REPO/VERIF_OUT redirect the check; /repo itself and /verif/evidence are untouched).
id=$1; prop=${2:-${1%%-*}}; tier=${3:-quick}
wt=/tmp/seedwt/$id; out=/tmp/seedout/$id
rm -rf $out; mkdir -p /tmp/seedwt $out
git -C /repo worktree remove --force $wt 2>/dev/null
git -C /repo worktree add -q --detach $wt HEAD || exit 2
git -C $wt apply /verif/seeded/$id/patch.diff || { echo "patch does not apply"; git -C /repo worktree remove --force $wt; exit 2; }
cd /verif
VERIF_REPO=$wt VERIF_OUT=$out timeout ${SEED_TIMEOUT:-2400} ./check $prop --tier $tier $CHECK_ARGS > /tmp/seedrun_$id.log 2>&1; rc=$?
git -C /repo worktree remove --force $wt
echo "seed=$id property=$prop tier=$tier check_exit=$rc"
grep -m4 "^VIOLATION\|^KNOWN-FINDING" /tmp/seedrun_$id.log | cut -c1-300
grep "^INCONCLUSIVE\|^PROBLEM" /tmp/seedrun_$id.log | head -3 | cut -c1-300
rm -rf $out/.work
