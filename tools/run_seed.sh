#!/bin/bash
# run_seed.sh <seed-id> [property-id] : apply a seeded change to /repo, run the check, undo it.
id=$1; prop=${2:-${1%%-*}}
cd /verif
git -C /repo apply /verif/seeded/$id/patch.diff || { echo "patch does not apply"; exit 2; }
timeout 1800 ./check $prop > /tmp/seedrun_$id.log 2>&1; rc=$?
git -C /repo checkout -- .
echo "seed=$id property=$prop check_exit=$rc"
grep -m3 "^VIOLATION\|^  harness" /tmp/seedrun_$id.log | cut -c1-300
grep "^INCONCLUSIVE" /tmp/seedrun_$id.log | head -3 | cut -c1-300
