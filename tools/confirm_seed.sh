#!/bin/bash
# confirm_seed.sh <id> <demo-dest-dir> <go test pkgs...>
# Confirms a seeded change in a fresh scratch worktree: existing tests pass with the patch,
# the demo fails with it and passes without it.  On success stores it under /verif/seeded/<id>/.
set -u
id=$1; shift; demodir=$1; shift; pkgs="$@"
export PATH=/opt/veriftools/go1.26.8/bin:$PATH GOFLAGS=-mod=mod GOPROXY=off GOTOOLCHAIN=local GOSUMDB=off
src=/tmp/seed/$id
wt=/tmp/wtc/$id
rm -rf $wt; mkdir -p /tmp/wtc
git -C /repo worktree add -q --detach $wt HEAD || exit 2
cd $wt
MODDIR=${MODDIR:-.}
demo=$(ls $src/demo*_test.go $src/demo_test.go 2>/dev/null | head -1)
run() { (cd $wt/$MODDIR && timeout 1500 go test -vet=off -count=1 "$@" 2>&1 | tail -15; exit ${PIPESTATUS[0]}); }
res=""
# 1. demo passes without the patch
cp $demo $demodir/zz_seed_demo_test.go
rel=$(realpath --relative-to=$wt/$MODDIR $wt/$demodir)
run ./$rel -run "${DEMO_RUN:-TestC[0-9]+|Demo|Seed}" > /tmp/wtc/$id.demo_clean.log; r1=$?
# 2. apply the patch: demo fails
git apply $src/patch.diff || { echo "patch does not apply"; exit 2; }
run ./$rel -run "${DEMO_RUN:-TestC[0-9]+|Demo|Seed}" > /tmp/wtc/$id.demo_patched.log; r2=$?
# 3. existing tests (without the demo) pass with the patch
rm -f $demodir/zz_seed_demo_test.go
run $pkgs > /tmp/wtc/$id.tests_patched.log; r3=$?
echo "demo_without_patch_exit=$r1 demo_with_patch_exit=$r2 existing_tests_with_patch_exit=$r3"
cd /; git -C /repo worktree remove --force $wt
if [ $r1 -eq 0 ] && [ $r2 -ne 0 ] && [ $r3 -eq 0 ]; then
  mkdir -p /verif/seeded/$id
  cp $src/patch.diff /verif/seeded/$id/patch.diff
  cp $demo /verif/seeded/$id/demo_test.go
  python3 - "$id" "$demodir" "$pkgs" <<'PY'
import json,sys
id,demodir,pkgs=sys.argv[1:4]
m=json.load(open('/tmp/seed/%s/meta.json'%id))
m['confirmed_by_us']={'demo_dir':demodir,'ran':'go test -vet=off -count=1 '+pkgs+' (patched, demo removed): pass; demo without patch: pass; demo with patch: FAIL','scratch_worktree':'/tmp/wtc/'+id+' (removed)'}
json.dump(m,open('/verif/seeded/%s/meta.json'%id,'w'),indent=1)
PY
  echo CONFIRMED $id
else
  echo NOT-CONFIRMED $id; tail -5 /tmp/wtc/$id.*.log
fi
