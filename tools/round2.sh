#!/bin/bash
# round2.sh <prop> <demo-dest-dir> <pkgs...>: take a sub-agent's delivery from /tmp/sa/<prop>-out, confirm it in a fresh
# scratch worktree (stored as seeded/<prop>-2 on success), drop the agent's worktree, then run the check against it.
p=$1; shift
id=${SEEDID:-$p-2}
rm -rf /tmp/seed/$id; mkdir -p /tmp/seed/$id
cp /tmp/sa/$p-out/patch.diff /tmp/sa/$p-out/meta.json /tmp/seed/$id/ || exit 2
cp /tmp/sa/$p-out/demo_test.go /tmp/seed/$id/demo_test.go || exit 2
git -C /repo worktree remove --force /tmp/sa/$p 2>/dev/null
/verif/tools/confirm_seed.sh $id "$@" | tail -8
[ -d /verif/seeded/$id ] && /verif/tools/run_seed.sh $id
