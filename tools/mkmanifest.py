#!/usr/bin/env python3
"""Regenerates /verif/MANIFEST.json from props/*.json (claimed checks) and props/NA.json."""
import json, os, glob
V = "/verif"
props = [json.loads(l) for l in open(V + "/properties.jsonl")]
na = json.load(open(V + "/props/NA.json"))
claims = json.load(open(V + "/props/CLAIMS.json"))
ready = set(json.load(open(V + "/props/READY.json")))  # checks that ran clean on the unchanged tree
claims = {k: v for k, v in claims.items() if k in ready}  # id -> {text, note, technique, design_ref}
checks = []
served = []
for p in props:
    pid = p["id"]
    if pid in claims and os.path.exists("%s/props/%s.json" % (V, pid)):
        c = claims[pid]
        served.append(pid)
        checks.append({
            "property_id": pid,
            "quick_cmd": "./check %s --tier quick" % pid,
            "thorough_cmd": "./check %s --tier thorough" % pid,
            "evidence_file": "/verif/evidence/%s.json" % pid,
            "replay_cmd_template": "./check %s --replay {path}" % pid,
            "engine": "gosym",
            "level_claimed": {"category": "model_checking", "text": c["text"], "design_ref": c.get("design_ref", "DESIGN.md §6 " + pid)},
            "level_note": c["note"],
            "technique": c.get("technique", "symbolic execution of Go SSA + SMT (bit-vectors) per path; bounded"),
        })
nalist = []
for p in props:
    if p["id"] not in served:
        nalist.append({"property_id": p["id"], "reason": na.get(p["id"], "no check built in the time available; the design for it is in DESIGN.md §6 but no harness ran clean, so nothing is claimed")})
m = {
    "version": 1,
    "setup_cmd": "cd /verif/engine && PATH=/opt/veriftools/go1.26.8/bin:$PATH GOFLAGS=-mod=mod GOPROXY=off GOTOOLCHAIN=local GOSUMDB=off go build -o /verif/bin/gosym ./cmd/gosym",
    "hooks": {
        "guard": "verif",
        "enable": "no source hook in /repo: harnesses are injected as go/packages overlay files (engine) and go test -overlay files (native replay); nothing of ours is compiled into the repository",
        "baseline_off_cmd": "for m in $(cat /w/out/gomods.txt); do MF=$(cd /repo/$m && . /w/out/goenv.sh && gomodflag); (cd /repo/$m && go test $MF -json -vet=off -count=1 -timeout 25m ./...); done",
        "source_commits": [],
        "add_only": True,
    },
    "engines": [{"name": "gosym", "path": "/verif/engine", "serves_properties": served,
                 "kind_free_text": "symbolic interpreter for Go SSA (go/ssa of /repo's current tree, regenerated every run) emitting SMT-LIB2 bit-vector queries to z3/cvc5; decision-prefix re-execution, state merging with guarded early returns, native replay of solver models via go test -overlay"}],
    "checks": checks,
    "not_applicable": nalist,
    "notes": "fix: commits in /repo are listed in known_findings.txt; seeded changes used to test the checks are under /verif/seeded",
}
json.dump(m, open(V + "/MANIFEST.json", "w"), indent=1)
print("claimed:", served)
print("not applicable:", [x["property_id"] for x in nalist])
