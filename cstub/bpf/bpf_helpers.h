#ifndef STUB_BPF_HELPERS_H
#define STUB_BPF_HELPERS_H
#include <linux/types.h>
#define SEC(x) __attribute__((section(x), used))
#define __always_inline inline __attribute__((always_inline))
#define __uint(name, val) int (*name)[val]
#define __type(name, val) typeof(val) *name
#define __array(name, val) typeof(val) *name[]
#define __maybe_unused __attribute__((unused))
#define __noinline __attribute__((noinline))
#define __weak __attribute__((weak))
#define barrier() asm volatile("" ::: "memory")
static long (*bpf_trace_printk)(const char *fmt, __u32 fmt_size, ...) = (void *) 6;
static void *(*bpf_map_lookup_elem)(void *map, const void *key) = (void *) 1;
static long (*bpf_map_update_elem)(void *map, const void *key, const void *value, __u64 flags) = (void *) 2;
static long (*bpf_map_delete_elem)(void *map, const void *key) = (void *) 3;
static __u64 (*bpf_ktime_get_ns)(void) = (void *) 5;
static long (*bpf_tail_call)(void *ctx, void *prog_array_map, __u32 index) = (void *) 12;
static __u32 (*bpf_get_prandom_u32)(void) = (void *) 7;
static __u32 (*bpf_get_smp_processor_id)(void) = (void *) 8;
static long (*bpf_for_each_map_elem)(void *map, void *callback_fn, void *callback_ctx, __u64 flags) = (void *) 164;
#endif
