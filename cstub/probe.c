#include "types.h"
#include "conntrack_types.h"
#include "nat_types.h"
int sz1 = sizeof(struct cali_tc_state);
int sz2 = sizeof(struct calico_ct_key);
int sz3 = sizeof(struct calico_ct_value);
int sz4 = sizeof(struct calico_nat_key);
int sz5 = sizeof(struct calico_nat_value);
int sz6 = sizeof(struct calico_nat_dest);
