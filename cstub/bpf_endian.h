#ifndef STUB_BPF_ENDIAN_H
#define STUB_BPF_ENDIAN_H
#define bpf_htons(x) __builtin_bswap16(x)
#define bpf_ntohs(x) __builtin_bswap16(x)
#define bpf_htonl(x) __builtin_bswap32(x)
#define bpf_ntohl(x) __builtin_bswap32(x)
#define bpf_cpu_to_be64(x) __builtin_bswap64(x)
#define bpf_be64_to_cpu(x) __builtin_bswap64(x)
#endif
