#ifndef STUB_BPF_CORE_READ_H
#define STUB_BPF_CORE_READ_H
#endif
