package gosym

// State merging at control-flow joins ("diamond merge" with guarded early returns).
//
// At an If on a symbolic condition both arms are executed up to the join block J
// (the immediate post-dominator when early-exit blocks are ignored).  Heap writes
// are captured through the write journal and merged with ite; SSA registers are
// merged through J's phis.  An arm that returns early leaves a *pending return*
// (guard, result, heap-at-return) in the frame; execution continues under ¬guard
// and the pending return is resolved at the frame's Return.  Anything that cannot
// be merged aborts the merge and the engine falls back to forking at the If.

import (
	"fmt"
	"os"
	"go/token"
	"maps"
	"slices"
	"sort"
	"unsafe"

	"golang.org/x/tools/go/ssa"
)

type pendingRet struct {
	guard  *Term
	result value
	writes map[*value]value
	order  []*value
	jmark  int
	amark  int
	pcMark int
	nots   []*Term
}

type rng struct{ lo, hi uintptr }

func (in *interpreter) noteRange(s []value) {
	if len(s) == 0 || !in.journaling {
		return
	}
	lo := uintptr(unsafe.Pointer(&s[0]))
	in.fresh = append(in.fresh, rng{lo, lo + uintptr(len(s))*unsafe.Sizeof(s[0])})
}

// noteAlloc registers the backing arrays nested in v as freshly allocated.
func (in *interpreter) noteAlloc(v value) {
	if !in.journaling {
		return
	}
	switch v := v.(type) {
	case structure:
		in.noteRange(v)
		for _, f := range v {
			in.noteAlloc(f)
		}
	case array:
		in.noteRange(v)
		for _, f := range v {
			in.noteAlloc(f)
		}
	}
}

type freshIdx []rng

func (in *interpreter) freshSince(mark int) freshIdx {
	idx := slices.Clone(in.fresh[mark:])
	sort.Slice(idx, func(a, b int) bool { return idx[a].lo < idx[b].lo })
	return idx
}

func (f freshIdx) has(addr *value) bool {
	p := uintptr(unsafe.Pointer(addr))
	k := sort.Search(len(f), func(k int) bool { return f[k].lo > p })
	return k > 0 && p < f[k-1].hi
}

// ipdoms: join block per block, ignoring early exits (all no-successor blocks except the last Return).
func (in *interpreter) ipdoms(fn *ssa.Function) []*ssa.BasicBlock {
	if r, ok := in.pdoms[fn]; ok {
		return r
	}
	n := len(fn.Blocks)
	exit := n
	// the "real" exit is the lexically last return; all other exits are early exits
	realExit := -1
	var bestPos token.Pos = -1
	for _, b := range fn.Blocks {
		if len(b.Succs) == 0 && len(b.Instrs) > 0 {
			if r, ok := b.Instrs[len(b.Instrs)-1].(*ssa.Return); ok {
				if r.Pos() >= bestPos {
					bestPos = r.Pos()
					realExit = b.Index
				}
			}
		}
	}
	words := (n + 1 + 63) / 64
	full := make([]uint64, words)
	for k := 0; k <= n; k++ {
		full[k/64] |= 1 << (k % 64)
	}
	pd := make([][]uint64, n+1)
	for k := 0; k <= n; k++ {
		pd[k] = slices.Clone(full)
	}
	pd[exit] = make([]uint64, words)
	pd[exit][exit/64] |= 1 << (exit % 64)
	changed := true
	for changed {
		changed = false
		for k := n - 1; k >= 0; k-- {
			b := fn.Blocks[k]
			var nw []uint64
			switch {
			case len(b.Succs) == 0 && k == realExit:
				nw = slices.Clone(pd[exit])
			case len(b.Succs) == 0:
				continue // early exit: stays ⊤
			default:
				nw = slices.Clone(full)
				for _, s := range b.Succs {
					for w := range nw {
						nw[w] &= pd[s.Index][w]
					}
				}
			}
			nw[k/64] |= 1 << (k % 64)
			if !slices.Equal(nw, pd[k]) {
				pd[k] = nw
				changed = true
			}
		}
	}
	count := func(s []uint64) int {
		c := 0
		for _, w := range s {
			for ; w != 0; w &= w - 1 {
				c++
			}
		}
		return c
	}
	res := make([]*ssa.BasicBlock, n)
	for k := 0; k < n; k++ {
		if slices.Equal(pd[k], full) {
			continue // early-exit region: no join
		}
		best, bestC := -1, -1
		for j := 0; j < n; j++ {
			if j == k || pd[k][j/64]&(1<<(j%64)) == 0 {
				continue
			}
			if c := count(pd[j]); c > bestC {
				best, bestC = j, c
			}
		}
		if best >= 0 {
			res[k] = fn.Blocks[best]
		}
	}
	in.pdoms[fn] = res
	return res
}

func sameValue(a, b value) bool {
	switch x := a.(type) {
	case []value:
		y, ok := b.([]value)
		if !ok || len(x) != len(y) || cap(x) != cap(y) {
			return false
		}
		if cap(x) == 0 {
			return (x == nil) == (y == nil)
		}
		return &x[:1][0] == &y[:1][0]
	case structure:
		y, ok := b.(structure)
		if !ok || len(x) != len(y) {
			return false
		}
		for k := range x {
			if !sameValue(x[k], y[k]) {
				return false
			}
		}
		return true
	case array:
		y, ok := b.(array)
		if !ok || len(x) != len(y) {
			return false
		}
		for k := range x {
			if !sameValue(x[k], y[k]) {
				return false
			}
		}
		return true
	case tuple:
		y, ok := b.(tuple)
		if !ok || len(x) != len(y) {
			return false
		}
		for k := range x {
			if !sameValue(x[k], y[k]) {
				return false
			}
		}
		return true
	case iface:
		y, ok := b.(iface)
		return ok && sameType(x.t, y.t) && sameValue(x.v, y.v)
	case symstr:
		y, ok := b.(symstr)
		if !ok || len(x.b) != len(y.b) {
			return false
		}
		for k := range x.b {
			if x.b[k] != y.b[k] {
				return false
			}
		}
		return true
	case nil:
		return b == nil
	case float64:
		y, ok := b.(float64)
		return ok && (x == y || (x != x && y != y))
	case bad:
		_, ok := b.(bad)
		return ok
	case uniqH:
		y, ok := b.(uniqH)
		return ok && sameValue(x.v, y.v)
	case symPtr:
		y, ok := b.(symPtr)
		return ok && x.idx == y.idx && len(x.elems) == len(y.elems) && (len(x.elems) == 0 || &x.elems[0] == &y.elems[0])
	}
	if b == nil {
		return false
	}
	switch b.(type) {
	case []value, structure, array, tuple, symstr, uniqH, symPtr:
		return false
	}
	return a == b
}

// iteValue builds ite(c, a, b) for mergeable values.
func (in *interpreter) iteValue(c *Term, a, b value) (value, bool) {
	if sameValue(a, b) {
		return a, true
	}
	switch x := a.(type) {
	case structure:
		y, ok := b.(structure)
		if !ok || len(x) != len(y) {
			return nil, false
		}
		out := make(structure, len(x))
		for k := range x {
			v, ok := in.iteValue(c, x[k], y[k])
			if !ok {
				return nil, false
			}
			out[k] = v
		}
		return out, true
	case array:
		y, ok := b.(array)
		if !ok || len(x) != len(y) {
			return nil, false
		}
		out := make(array, len(x))
		for k := range x {
			v, ok := in.iteValue(c, x[k], y[k])
			if !ok {
				return nil, false
			}
			out[k] = v
		}
		return out, true
	case tuple:
		y, ok := b.(tuple)
		if !ok || len(x) != len(y) {
			return nil, false
		}
		out := make(tuple, len(x))
		for k := range x {
			v, ok := in.iteValue(c, x[k], y[k])
			if !ok {
				return nil, false
			}
			out[k] = v
		}
		return out, true
	case iface:
		y, ok := b.(iface)
		if !ok || !sameType(x.t, y.t) || x.t == nil {
			return nil, false
		}
		v, ok := in.iteValue(c, x.v, y.v)
		if !ok {
			return nil, false
		}
		return iface{x.t, v}, true
	case float64:
		return nil, false
	case uniqH:
		y, ok := b.(uniqH)
		if !ok {
			return nil, false
		}
		v, ok := in.iteValue(c, x.v, y.v)
		if !ok {
			return nil, false
		}
		return uniqH{x.t, v}, true
	}
	if xb, ok := bytesOfStr(a); ok {
		yb, ok := bytesOfStr(b)
		if !ok || len(xb) != len(yb) {
			return nil, false
		}
		out := make([]value, len(xb))
		for k := range xb {
			v, ok := in.iteValue(c, xb[k], yb[k])
			if !ok {
				return nil, false
			}
			out[k] = v
		}
		return mkstr(out), true
	}
	if _, isf := b.(float64); isf {
		return nil, false
	}
	xt, ok1 := in.termOf(a)
	yt, ok2 := in.termOf(b)
	if !ok1 || !ok2 || xt.W != yt.W {
		return nil, false
	}
	_, as := a.(*Term)
	_, bs := b.(*Term)
	if !as && !bs && fmt.Sprintf("%T", a) != fmt.Sprintf("%T", b) {
		return nil, false
	}
	r := in.ctx.Ite(c, xt, yt)
	if r.IsConst() {
		if !as {
			return retype(a, r.K), true
		}
		if !bs {
			return retype(b, r.K), true
		}
	}
	return r, true
}

type armOut struct {
	reached bool
	env     map[ssa.Value]value
	phis    []value
	defers  *deferred
	writes  map[*value]value
	order   []*value
	freshW  []jentry // raw writes to cells allocated inside the arm (addr, old=final value)

	retGuard  *Term
	retResult value
	retWrites map[*value]value
}

func (in *interpreter) mergeFail(why string) (continuation, bool) {
	in.tmp["mergefails"] = asIntAny(in.tmp["mergefails"]) + 1
	m, _ := in.tmp["failwhy"].(map[string]int)
	if m == nil {
		m = map[string]int{}
		in.tmp["failwhy"] = m
	}
	if why == "arm" {
		why = "arm: " + in.lastAbort
	}
	if len(why) > 150 {
		why = why[:150]
	}
	m[why]++
	return 0, false
}

// finalizePending extends P.writes with the pre-images of every (non-fresh) slot written since P.jmark.
func (in *interpreter) finalizePending(P *pendingRet) bool {
	if P.jmark >= len(in.journal) {
		return true
	}
	fresh := in.freshSince(P.amark)
	for _, e := range in.journal[P.jmark:] {
		if e.undo != nil {
			return false
		}
		if _, seen := P.writes[e.addr]; seen || fresh.has(e.addr) {
			continue
		}
		P.writes[e.addr] = e.old
		P.order = append(P.order, e.addr)
	}
	P.jmark = len(in.journal)
	return true
}

// resolvePending merges a pending early return into the frame's final result and heap.
func (fr *frame) resolvePending() {
	in := fr.i
	P := fr.pending
	fr.pending = nil
	if !in.finalizePending(P) {
		panic(mergeAbort{"non-slot effect after early return"})
	}
	notG := in.ctx.Not(P.guard)
	popPC := func() {
		tail := slices.Clone(in.pc[P.pcMark:])
		in.pc = in.pc[:P.pcMark]
		for _, x := range tail {
			if slices.Contains(P.nots, x) {
				continue
			}
			in.pc = append(in.pc, in.ctx.Implies(notG, x))
		}
	}
	res, ok := in.iteValue(P.guard, P.result, fr.result)
	type wr struct {
		addr *value
		v    value
	}
	var ws []wr
	if ok {
		for _, addr := range P.order {
			if _, dead := (*addr).(bad); dead {
				continue
			}
			m, ok2 := in.iteValue(P.guard, P.writes[addr], *addr)
			if !ok2 {
				ok = false
				break
			}
			ws = append(ws, wr{addr, m})
		}
	}
	if ok {
		popPC()
		fr.result = res
		for _, w := range ws {
			in.write(w.addr, w.v)
		}
		return
	}
	// Unmergeable (e.g. nil vs non-nil error): fork on the guard, but only when this is the
	// outermost merge (no enclosing arm could observe the fork).
	if in.inMerge != 1 || in.restTop != fr {
		panic(mergeAbort{"unmergeable early-return result"})
	}
	tail := slices.Clone(in.pc[P.pcMark:])
	in.pc = in.pc[:P.pcMark]
	in.inMerge = 0
	early := in.decideBool(P.guard, "earlyreturn")
	in.inMerge = 1
	if early {
		fr.result = P.result
		for _, addr := range P.order {
			if _, dead := (*addr).(bad); dead {
				continue
			}
			in.write(addr, P.writes[addr])
		}
		return
	}
	for _, x := range tail {
		if !slices.Contains(P.nots, x) {
			in.pc = append(in.pc, x)
		}
	}
}

func (fr *frame) tryMerge(instr *ssa.If, c *Term) (cont continuation, ok bool) {
	in := fr.i
	if in.mergeDepth > 150 {
		return 0, false
	}
	B := fr.block
	J := in.ipdoms(fr.fn)[B.Index]
	if fr.fn.Recover != nil {
		return 0, false
	}
	if J == nil && fr.stopAt != nil {
		return 0, false
	}
	savedEnv := fr.env
	savedBlock, savedPrev := fr.block, fr.prevBlock
	savedDefers, savedStop, savedResult := fr.defers, fr.stopAt, fr.result
	Ppre := fr.pending
	pcLen := len(in.pc)
	jstart := len(in.journal)
	if in.inMerge == 0 {
		in.armBudget = 2_000_000
	}
	if Ppre != nil {
		// freeze P_pre's view of the heap before the arms run
		if !in.finalizePending(Ppre) {
			return in.mergeFail("pre-finalize")
		}
	}
	restore := func() {
		fr.env = savedEnv
		fr.block, fr.prevBlock = savedBlock, savedPrev
		fr.defers, fr.stopAt, fr.result = savedDefers, savedStop, savedResult
		fr.pending = Ppre
		fr.skipPhis = false
		fr.panicking = false
		fr.panic = nil
		in.pc = in.pc[:pcLen]
	}
	var arms [2]armOut
	var phis []*ssa.Phi
	if J != nil {
		for _, ins := range J.Instrs {
			if p, ok := ins.(*ssa.Phi); ok {
				phis = append(phis, p)
			} else {
				break
			}
		}
	}
	for k := 0; k < 2; k++ {
		guard := c
		if k == 1 {
			guard = in.ctx.Not(c)
		}
		in.pc = append(in.pc[:pcLen:pcLen], guard)
		mark := len(in.journal)
		amark := len(in.fresh)
		fr.env = maps.Clone(savedEnv)
		fr.block, fr.prevBlock = savedBlock, savedPrev
		fr.defers, fr.result = savedDefers, savedResult
		fr.pending = nil
		fr.stopAt = J
		good := fr.runArm(B.Succs[k], J, false)
		a := &arms[k]
		if good {
			a.env = fr.env
			a.defers = fr.defers
			a.reached = fr.block != nil
			if a.reached {
				if fr.skipPhis {
					fr.skipPhis = false
					for _, p := range phis {
						a.phis = append(a.phis, fr.env[p])
					}
				} else {
					pi := slices.Index(J.Preds, fr.prevBlock)
					for _, p := range phis {
						a.phis = append(a.phis, fr.get(p.Edges[pi]))
					}
				}
				if P := fr.pending; P != nil {
					if !in.finalizePending(P) {
						good = false
					}
					a.retGuard, a.retResult, a.retWrites = P.guard, P.result, P.writes
				}
			}
		}
		if good {
			fresh := in.freshSince(amark)
			a.writes = map[*value]value{}
			for _, e := range in.journal[mark:] {
				if e.undo != nil {
					good = false
					break
				}
				if _, dead := (*e.addr).(bad); dead {
					continue
				}
				if fresh.has(e.addr) {
					a.freshW = append(a.freshW, jentry{addr: e.addr, old: *e.addr})
					continue
				}
				if _, seen := a.writes[e.addr]; !seen {
					a.order = append(a.order, e.addr)
				}
				a.writes[e.addr] = *e.addr
			}
			if good && !a.reached {
				a.retGuard = in.ctx.True
				a.retResult = fr.result
				a.retWrites = a.writes
			}
		}
		in.rollback(mark)
		if !good {
			restore()
			return in.mergeFail("arm")
		}
	}
	restore()
	ctx := in.ctx
	G0, G1 := arms[0].retGuard, arms[1].retGuard
	if G0 == nil {
		G0 = ctx.False
	}
	if G1 == nil {
		G1 = ctx.False
	}
	G := ctx.Or(ctx.And(c, G0), ctx.And(ctx.Not(c), G1))

	// collect all addresses touched
	var addrs []*value
	seen := map[*value]bool{}
	add := func(order []*value, m map[*value]value) {
		for _, a := range order {
			if !seen[a] {
				seen[a] = true
				addrs = append(addrs, a)
			}
		}
		// retWrites of mixed arms may contain addresses not in order
		keys := make([]*value, 0, len(m))
		for a := range m {
			if !seen[a] {
				keys = append(keys, a)
			}
		}
		sort.Slice(keys, func(x, y int) bool { return uintptr(unsafe.Pointer(keys[x])) < uintptr(unsafe.Pointer(keys[y])) })
		for _, a := range keys {
			seen[a] = true
			addrs = append(addrs, a)
		}
	}
	for k := 0; k < 2; k++ {
		add(arms[k].order, arms[k].retWrites)
	}
	val := func(m map[*value]value, addr *value) value {
		if m != nil {
			if v, ok := m[addr]; ok {
				return v
			}
		}
		return *addr
	}
	pick := func(has0, has1 bool, v0, v1 value) (value, bool) {
		switch {
		case has0 && has1:
			return in.iteValue(c, v0, v1)
		case has0:
			return v0, true
		default:
			return v1, true
		}
	}
	r0, r1 := arms[0].reached, arms[1].reached
	hasRet0, hasRet1 := arms[0].retGuard != nil, arms[1].retGuard != nil

	// --- reach part ---
	var newEnv map[ssa.Value]value
	var phivals []value
	reachHeap := map[*value]value{}
	if r0 || r1 {
		if r0 && r1 && arms[0].defers != arms[1].defers {
			return in.mergeFail("defers")
		}
		newEnv = maps.Clone(savedEnv)
		for key := range savedEnv {
			// a value defined in a block that does not dominate the join cannot be used at or after it
			// (SSA dominance; loop-carried values travel through phis), so a stale binding from an earlier
			// loop iteration that only one arm recomputed needs no merging
			if ins, isIns := key.(ssa.Instruction); isIns && J != nil && ins.Block() != nil && ins.Block() != B && !ins.Block().Dominates(J) {
				continue
			}
			m, ok := pick(r0, r1, arms[0].env[key], arms[1].env[key])
			if !ok {
				if os.Getenv("GOSYM_MERGE_DEBUG") != "" && asIntAny(in.tmp["mergedbg"]) < 5 {
					in.tmp["mergedbg"] = asIntAny(in.tmp["mergedbg"]) + 1
					fmt.Fprintf(os.Stderr, "merge env fail at %s: %s = %s: %T vs %T\n", in.prog.Fset.Position(B.Instrs[len(B.Instrs)-1].Pos()), key.Name(), key, arms[0].env[key], arms[1].env[key])
				}
				return in.mergeFail("env")
			}
			newEnv[key] = m
		}
		for k := range phis {
			var a, b value
			if r0 {
				a = arms[0].phis[k]
			}
			if r1 {
				b = arms[1].phis[k]
			}
			m, ok := pick(r0, r1, a, b)
			if !ok {
				return in.mergeFail("phi")
			}
			phivals = append(phivals, m)
		}
		for _, addr := range addrs {
			m, ok := pick(r0, r1, val(arms[0].writes, addr), val(arms[1].writes, addr))
			if !ok {
				return in.mergeFail("reachheap")
			}
			reachHeap[addr] = m
		}
	}
	// --- return part ---
	var retResult value
	retHeap := map[*value]value{}
	if hasRet0 || hasRet1 {
		var ok bool
		retResult, ok = pick(hasRet0, hasRet1, arms[0].retResult, arms[1].retResult)
		if !ok {
			// unmergeable results between two returning arms: give up (fork at the If)
			return in.mergeFail("retresult")
		}
		for _, addr := range addrs {
			m, ok := pick(hasRet0, hasRet1, val(arms[0].retWrites, addr), val(arms[1].retWrites, addr))
			if !ok {
				return in.mergeFail("retheap")
			}
			retHeap[addr] = m
		}
	}
	applyFresh := func() {
		for k := 0; k < 2; k++ {
			for _, e := range arms[k].freshW {
				in.write(e.addr, e.old)
			}
		}
	}
	in.tmp["merges"] = asIntAny(in.tmp["merges"]) + 1

	if !r0 && !r1 {
		// both arms returned
		applyFresh()
		for _, addr := range addrs {
			in.write(addr, retHeap[addr])
		}
		fr.result = retResult
		fr.defers = nil
		fr.block = nil
		if fr.pending != nil {
			fr.resolvePending()
		}
		return kReturn, true
	}
	// continue from J
	applyFresh()
	for _, addr := range addrs {
		in.write(addr, reachHeap[addr])
	}
	fr.env = newEnv
	if r0 {
		fr.defers = arms[0].defers
	} else {
		fr.defers = arms[1].defers
	}
	for k, p := range phis {
		fr.env[p] = phivals[k]
	}
	fr.block = J
	fr.prevBlock = savedBlock
	fr.skipPhis = true
	if G != ctx.False {
		Pnew := &pendingRet{guard: G, result: retResult, writes: map[*value]value{}, jmark: len(in.journal), amark: len(in.fresh), pcMark: pcLen}
		for _, addr := range addrs {
			Pnew.writes[addr] = retHeap[addr]
			Pnew.order = append(Pnew.order, addr)
		}
		notG := ctx.Not(G)
		if Ppre != nil {
			if !in.finalizePending(Ppre) {
				in.rollback(jstart)
				restore()
				return in.mergeFail("chain-finalize")
			}
			res, ok := in.iteValue(Ppre.guard, Ppre.result, Pnew.result)
			if !ok {
				in.rollback(jstart)
				restore()
				return in.mergeFail(fmt.Sprintf("chain-result in %s: %s | %s", fr.fn.Name(), toString(Ppre.result), toString(Pnew.result)))
			}
			tot := &pendingRet{guard: ctx.Or(Ppre.guard, G), result: res, writes: map[*value]value{},
				jmark: len(in.journal), amark: len(in.fresh), pcMark: Ppre.pcMark, nots: append(slices.Clone(Ppre.nots), notG)}
			for _, lst := range [][]*value{Ppre.order, Pnew.order} {
				for _, addr := range lst {
					if _, done := tot.writes[addr]; done {
						continue
					}
					m, ok := in.iteValue(Ppre.guard, val(Ppre.writes, addr), val(Pnew.writes, addr))
					if !ok {
						in.rollback(jstart)
						restore()
						return in.mergeFail("chain-writes")
					}
					tot.writes[addr] = m
					tot.order = append(tot.order, addr)
				}
			}
			fr.pending = tot
		} else {
			Pnew.nots = []*Term{notG}
			fr.pending = Pnew
		}
		in.pc = append(in.pc, notG)
		if in.inMerge == 0 {
			// outermost: run the rest of the function as an arm so failure can roll back
			in.restTop = fr
			fr.stopAt = nil
			good := fr.runArm(J, nil, true)
			in.restTop = nil
			if !good || fr.block != nil {
				in.rollback(jstart)
				restore()
				return in.mergeFail("rest-arm in " + fr.fn.Name() + ": " + in.lastAbort)
			}
			fr.stopAt = savedStop
			return kReturn, true
		}
	}
	if J == savedStop {
		return kStop, true
	}
	return kJump, true
}

func asIntAny(v any) int {
	if n, ok := v.(int); ok {
		return n
	}
	return 0
}

// runArm executes from succ until fr.stopAt (or function return).  If resume is true
// the frame is already positioned at succ with phis set.
func (fr *frame) runArm(succ, J *ssa.BasicBlock, resume bool) (ok bool) {
	in := fr.i
	in.inMerge++
	in.mergeDepth++
	savedIn := in.inMerge
	defer func() {
		in.inMerge = savedIn - 1
		in.mergeDepth--
		if p := recover(); p != nil {
			if pe, isPE := p.(pathEnd); isPE && pe.kind != "infeasible" {
				panic(pe)
			}
			if in.ex != nil && in.ex.Cfg.Trace {
				fmt.Printf("arm abort in %s: %v\n", fr.fn, p)
			}
			in.lastAbort = fmt.Sprint(p)
			ok = false
		}
	}()
	if !resume {
		fr.prevBlock, fr.block = fr.block, succ
		if J != nil && succ == J {
			return true
		}
	}
	cont := runFrame(fr)
	if cont == kStop {
		return true
	}
	if fr.block == nil {
		return true // returned
	}
	return false // recovered panic continuing at Recover block
}
