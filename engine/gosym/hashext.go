package gosym

import (
	"crypto/sha256"
	"fmt"
)

// Cryptographic hashes: concrete input -> computed natively; symbolic input -> fresh output
// bytes constrained only by functional consistency with earlier calls of the same hash
// (Ackermann constraints: equal inputs => equal outputs).  Everything else about the hash is
// unconstrained, i.e. the check holds for every function of the input bytes.

type hashState struct {
	kind string
	buf  []value
}

type hashCall struct {
	in  []value
	out []value
}

func init() {
	mk := func(kind string) externalFn {
		return func(fr *frame, args []value) value {
			cell := make([]value, 1)
			cell[0] = &hashState{kind: kind}
			fr.i.noteRange(cell)
			return &cell[0]
		}
	}
	externals["crypto/internal/fips140/sha256.New"] = mk("sha256")
	externals["crypto/internal/fips140/sha256.New224"] = mk("sha224")
	st := func(v value) *hashState { return (*v.(*value)).(*hashState) }
	externals["(*crypto/internal/fips140/sha256.Digest).Write"] = func(fr *frame, args []value) value {
		h := st(args[0])
		p := args[1].([]value)
		old := h.buf
		h.buf = append(append([]value(nil), h.buf...), p...)
		fr.i.journalUndo(func() { h.buf = old })
		return tuple{len(p), iface{}}
	}
	externals["(*crypto/internal/fips140/sha256.Digest).Reset"] = func(fr *frame, args []value) value {
		h := st(args[0])
		old := h.buf
		h.buf = nil
		fr.i.journalUndo(func() { h.buf = old })
		return nil
	}
	externals["(*crypto/internal/fips140/sha256.Digest).Size"] = func(fr *frame, args []value) value {
		if st(args[0]).kind == "sha224" {
			return 28
		}
		return 32
	}
	externals["(*crypto/internal/fips140/sha256.Digest).BlockSize"] = func(fr *frame, args []value) value { return 64 }
	externals["(*crypto/internal/fips140/sha256.Digest).Sum"] = func(fr *frame, args []value) value {
		h := st(args[0])
		n := 32
		if h.kind == "sha224" {
			n = 28
		}
		out := fr.i.uninterpHash(h.kind, h.buf, n)
		pre, _ := args[1].([]value)
		res := append(append([]value(nil), pre...), out...)
		fr.i.noteRange(res)
		return res
	}
	externals["crypto/sha256.Sum256"] = func(fr *frame, args []value) value {
		out := fr.i.uninterpHash("sha256", args[0].([]value), 32)
		return array(out)
	}
}

// hashEpochCheck resets the per-path hash records when a new path starts.
func (in *interpreter) hashEpochCheck() {
	if ep, _ := in.tmp["hashEpoch"].(int); ep != in.pathNo {
		in.tmp["hashEpoch"] = in.pathNo
		for k := range in.tmp {
			if len(k) > 5 && k[:5] == "hash:" {
				delete(in.tmp, k)
			}
		}
		in.tmp["hashInvocations"] = 0
	}
}

func (in *interpreter) uninterpHash(kind string, input []value, n int) []value {
	in.hashEpochCheck()
	in.tmp["hashInvocations"] = asIntAny(in.tmp["hashInvocations"]) + 1
	allc := true
	for _, b := range input {
		if _, ok := b.(uint8); !ok {
			allc = false
			break
		}
	}
	if allc {
		bs := make([]byte, len(input))
		for i, b := range input {
			bs[i] = b.(uint8)
		}
		var sum []byte
		if kind == "sha224" {
			s := sha256.Sum224(bs)
			sum = s[:]
		} else {
			s := sha256.Sum256(bs)
			sum = s[:]
		}
		out := make([]value, n)
		for i := range out {
			out[i] = sum[i]
		}
		return out
	}
	if in.inMerge > 0 {
		panic(mergeAbort{"uninterpreted hash in arm"})
	}
	calls, _ := in.tmp["hash:"+kind].([]hashCall)
	c := in.ctx
	for _, pc := range calls {
		if len(pc.in) == len(input) {
			same := true
			for i := range input {
				if !sameValue(pc.in[i], input[i]) {
					same = false
					break
				}
			}
			if same {
				return pc.out
			}
		}
	}
	if in.inMerge > 0 {
		// the consistency constraints below are path-condition entries, which a merged arm cannot keep
		panic(mergeAbort{"hash in arm"})
	}
	out := make([]value, n)
	for i := range out {
		out[i] = in.freshVar(fmt.Sprintf("%s!%d[%d]", kind, len(calls), i), 8)
	}
	for _, pc := range calls {
		if len(pc.in) != len(input) {
			continue
		}
		eqIn := c.True
		for i := range input {
			a, _ := in.termOf(pc.in[i])
			b, _ := in.termOf(input[i])
			eqIn = c.And(eqIn, c.Eq(a, b))
		}
		eqOut := c.True
		for i := range out {
			a, _ := in.termOf(pc.out[i])
			eqOut = c.And(eqOut, c.Eq(a, out[i].(*Term)))
		}
		in.pc = append(in.pc, c.Implies(eqIn, eqOut))
	}
	calls = append(calls, hashCall{append([]value(nil), input...), out})
	in.tmp["hash:"+kind] = calls
	return out
}

func init() {
	externals["(crypto.Hash).New"] = func(fr *frame, args []value) value {
		in := fr.i
		kind := ""
		switch asInt64(args[0]) {
		case 4:
			kind = "sha224"
		case 5:
			kind = "sha256"
		default:
			panic(unsupported("crypto.Hash.New for this hash function"))
		}
		pkg := in.prog.ImportedPackage("crypto/internal/fips140/sha256")
		if pkg == nil {
			panic(unsupported("crypto/internal/fips140/sha256 not loaded"))
		}
		dt := pkg.Type("Digest").Object().Type()
		cell := make([]value, 1)
		cell[0] = &hashState{kind: kind}
		in.noteRange(cell)
		return iface{typesNewPointer(dt), &cell[0]}
	}
}

func nativeDigest(kind string, bs []byte) []byte {
	if kind == "sha224" {
		s := sha256.Sum224(bs)
		return s[:]
	}
	s := sha256.Sum256(bs)
	return s[:]
}

// refineHashModel turns a counterexample found under the uninterpreted-hash model into one that
// holds for the real hash: the inputs of every hash call on the path are fixed to their values in
// the model, the outputs to the real digest of those inputs, and the violated assertion is asked
// again.  If that is unsatisfiable another candidate (different hash inputs) is tried, a bounded
// number of times.  Returns the refined model, or ok=false if none was found (the caller then
// reports the unrefined model, which the native replay will not reproduce).
func (in *interpreter) refineHashModel(neg *Term, m map[string]uint64) (map[string]uint64, bool) {
	in.hashEpochCheck()
	type rec struct {
		kind string
		c    hashCall
	}
	var recs []rec
	for k, v := range in.tmp {
		if len(k) > 5 && k[:5] == "hash:" {
			for _, hc := range v.([]hashCall) {
				recs = append(recs, rec{k[5:], hc})
			}
		}
	}
	if len(recs) == 0 {
		return m, true
	}
	c := in.ctx
	block := c.True // excludes the hash inputs already tried
	for try := 0; try < 12; try++ {
		memo := map[int]uint64{}
		fix := c.True
		same := c.True
		for _, r := range recs {
			bs := make([]byte, len(r.c.in))
			for i, b := range r.c.in {
				switch b := b.(type) {
				case uint8:
					bs[i] = b
				case *Term:
					k, _ := evalTerm(b, m, memo)
					bs[i] = byte(k)
					same = c.And(same, c.Eq(b, c.Const(8, k&0xff)))
				}
			}
			d := nativeDigest(r.kind, bs)
			for i, o := range r.c.out {
				if t, ok := o.(*Term); ok {
					fix = c.And(fix, c.Eq(t, c.Const(8, uint64(d[i]))))
				}
			}
		}
		res, m2 := in.solver.Check(in.pc, c.And(neg, c.And(block, c.And(same, fix))), true)
		if res == Sat {
			return m2, true
		}
		block = c.And(block, c.Not(same))
		res, m3 := in.solver.Check(in.pc, c.And(neg, block), true)
		if res != Sat {
			return m, false
		}
		m = m3
	}
	return m, false
}
