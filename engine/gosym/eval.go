package gosym

import "math"

// evalTerm evaluates t under a model (missing variables read as 0).
func evalTerm(t *Term, model map[string]uint64, memo map[int]uint64) (uint64, bool) {
	if v, ok := memo[t.ID]; ok {
		return v, true
	}
	var r uint64
	switch t.Op {
	case OpConst:
		r = t.K
	case OpVar:
		r = model[t.Name] & mask(t.W)
		if t.W == 0 {
			r = model[t.Name] & 1
		}
	case OpUF:
		return 0, false
	default:
		var a [3]uint64
		for k, x := range t.Args {
			v, ok := evalTerm(x, model, memo)
			if !ok {
				return 0, false
			}
			a[k] = v
		}
		b2u := func(b bool) uint64 {
			if b {
				return 1
			}
			return 0
		}
		switch t.Op {
		case OpNot:
			r = a[0] ^ 1
		case OpAnd:
			r = a[0] & a[1]
		case OpOr:
			r = a[0] | a[1]
		case OpIte:
			if a[0] != 0 {
				r = a[1]
			} else {
				r = a[2]
			}
		case OpEq:
			r = b2u(a[0] == a[1])
		case OpBVNot:
			r = ^a[0] & mask(t.W)
		case OpBVNeg:
			r = -a[0] & mask(t.W)
		case OpULt:
			r = b2u(a[0] < a[1])
		case OpULe:
			r = b2u(a[0] <= a[1])
		case OpSLt:
			w := t.Args[0].W
			r = b2u(signExt(a[0], w) < signExt(a[1], w))
		case OpSLe:
			w := t.Args[0].W
			r = b2u(signExt(a[0], w) <= signExt(a[1], w))
		case OpConcat:
			r = a[0]<<t.Args[1].W | a[1]
		case OpExtract:
			hi, lo := uint8(t.K>>8), uint8(t.K&0xff)
			r = (a[0] >> lo) & mask(hi-lo+1)
		case OpZExt:
			r = a[0]
		case OpSExt:
			r = uint64(signExt(a[0], t.Args[0].W)) & mask(t.W)
		case OpFLt:
			r = b2u(math.Float64frombits(a[0]) < math.Float64frombits(a[1]))
		case OpFLe:
			r = b2u(math.Float64frombits(a[0]) <= math.Float64frombits(a[1]))
		case OpFEq:
			r = b2u(math.Float64frombits(a[0]) == math.Float64frombits(a[1]))
		case OpFIsNaN:
			r = b2u(math.IsNaN(math.Float64frombits(a[0])))
		default:
			v, ok := evalBin(t.Op, t.W, a[0], a[1])
			if !ok {
				return 0, false
			}
			r = v
		}
	}
	memo[t.ID] = r
	return r, true
}
