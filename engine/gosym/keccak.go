package gosym

import (
	"encoding/binary"
	"go/types"
	"math/bits"
	"unsafe"
)

// Native Keccak-f[1600] for crypto/internal/fips140/sha3.keccakF1600 (assembly on amd64; the
// portable Go version reinterprets [200]byte as [25]uint64 through unsafe, which a cell-based
// heap cannot do).  Concrete state only.

var keccakRC = [24]uint64{
	0x0000000000000001, 0x0000000000008082, 0x800000000000808A, 0x8000000080008000,
	0x000000000000808B, 0x0000000080000001, 0x8000000080008081, 0x8000000000008009,
	0x000000000000008A, 0x0000000000000088, 0x0000000080008009, 0x000000008000000A,
	0x000000008000808B, 0x800000000000008B, 0x8000000000008089, 0x8000000000008003,
	0x8000000000008002, 0x8000000000000080, 0x000000000000800A, 0x800000008000000A,
	0x8000000080008081, 0x8000000000008080, 0x0000000080000001, 0x8000000080008008,
}

var byteType = types.Typ[types.Uint8]

var keccakRot = [24]int{1, 3, 6, 10, 15, 21, 28, 36, 45, 55, 2, 14, 27, 41, 56, 8, 25, 43, 62, 18, 39, 61, 20, 44}
var keccakPi = [24]int{10, 7, 11, 17, 18, 3, 5, 16, 8, 21, 24, 4, 15, 23, 19, 13, 12, 2, 20, 14, 22, 9, 6, 1}

func keccakF1600Native(a *[25]uint64) {
	var bc [5]uint64
	for round := 0; round < 24; round++ {
		for i := 0; i < 5; i++ {
			bc[i] = a[i] ^ a[i+5] ^ a[i+10] ^ a[i+15] ^ a[i+20]
		}
		for i := 0; i < 5; i++ {
			t := bc[(i+4)%5] ^ bits.RotateLeft64(bc[(i+1)%5], 1)
			for j := 0; j < 25; j += 5 {
				a[j+i] ^= t
			}
		}
		t := a[1]
		for i := 0; i < 24; i++ {
			j := keccakPi[i]
			b := a[j]
			a[j] = bits.RotateLeft64(t, keccakRot[i])
			t = b
		}
		for j := 0; j < 25; j += 5 {
			for i := 0; i < 5; i++ {
				bc[i] = a[j+i]
			}
			for i := 0; i < 5; i++ {
				a[j+i] ^= (^bc[(i+1)%5]) & bc[(i+2)%5]
			}
		}
		a[0] ^= keccakRC[round]
	}
}

func init() {
	externals["crypto/internal/fips140/sha3.keccakF1600"] = func(fr *frame, args []value) value {
		p := args[0].(*value)
		arr, ok := (*p).(array)
		var cells []value
		if ok {
			cells = arr
		} else {
			cells = unsafe.Slice(p, 200)
		}
		var buf [200]byte
		for i := 0; i < 200; i++ {
			b, conc := cells[i].(uint8)
			if !conc {
				panic(unsupported("sha3 over symbolic bytes"))
			}
			buf[i] = b
		}
		var st [25]uint64
		for i := range st {
			st[i] = binary.LittleEndian.Uint64(buf[8*i:])
		}
		keccakF1600Native(&st)
		for i := range st {
			binary.LittleEndian.PutUint64(buf[8*i:], st[i])
		}
		for i := 0; i < 200; i++ {
			fr.i.store(byteType, &cells[i], buf[i])
		}
		return nil
	}
}
