package gosym

import "go/types"

// reflect.DeepEqual over interpreter values (types from the interface operands).
func init() {
	externals["reflect.DeepEqual"] = func(fr *frame, args []value) value {
		a, b := args[0].(iface), args[1].(iface)
		if a.t == nil || b.t == nil {
			return a.t == nil && b.t == nil
		}
		if !types.Identical(a.t, b.t) {
			return false
		}
		return fr.i.deepEqual(a.t, a.v, b.v, 0)
	}
}

func (in *interpreter) deepEqual(T types.Type, a, b value, depth int) bool {
	if depth > 40 {
		panic(unsupported("DeepEqual recursion too deep (cyclic value?)"))
	}
	switch t := T.Underlying().(type) {
	case *types.Pointer:
		// unique.Handle's pointer field carries the value itself (uniqH): pointer equality of canonical
		// pointers is value equality; a zero handle holds a nil *value
		ha, aIsH := a.(uniqH)
		hb, bIsH := b.(uniqH)
		if aIsH || bIsH {
			if !(aIsH && bIsH) {
				return false
			}
			return in.deepEqual(ha.t, ha.v, hb.v, depth+1)
		}
		pa, pb := a.(*value), b.(*value)
		if pa == pb {
			return true
		}
		if pa == nil || pb == nil {
			return false
		}
		return in.deepEqual(t.Elem(), *pa, *pb, depth+1)
	case *types.Struct:
		sa, sb := a.(structure), b.(structure)
		for k := 0; k < t.NumFields(); k++ {
			if !in.deepEqual(t.Field(k).Type(), sa[k], sb[k], depth+1) {
				return false
			}
		}
		return true
	case *types.Array:
		sa, sb := a.(array), b.(array)
		for k := range sa {
			if !in.deepEqual(t.Elem(), sa[k], sb[k], depth+1) {
				return false
			}
		}
		return true
	case *types.Slice:
		sa, sb := a.([]value), b.([]value)
		if (sa == nil) != (sb == nil) || len(sa) != len(sb) {
			return false
		}
		for k := range sa {
			if !in.deepEqual(t.Elem(), sa[k], sb[k], depth+1) {
				return false
			}
		}
		return true
	case *types.Map:
		ma, mb := a.(*mapV), b.(*mapV)
		if (ma == nil) != (mb == nil) || ma.len() != mb.len() {
			return false
		}
		for _, e := range ma.live() {
			o := in.mapFind(mb, e.key)
			if o == nil || !in.deepEqual(t.Elem(), e.val, o.val, depth+1) {
				return false
			}
		}
		return true
	case *types.Interface:
		ia, ib := a.(iface), b.(iface)
		if ia.t == nil || ib.t == nil {
			return ia.t == nil && ib.t == nil
		}
		if !types.Identical(ia.t, ib.t) {
			return false
		}
		return in.deepEqual(ia.t, ia.v, ib.v, depth+1)
	case *types.Signature:
		return eqnil(T, a, b) && a == nil
	}
	switch r := in.symEquals(T, a, b).(type) {
	case bool:
		return r
	case *Term:
		return in.decideBool(r, "deepequal")
	}
	return false
}

// protobuf: Clone/Equal on generated messages are modelled structurally on the boxed values
// (generated structs are plain fields; the internal state/sizeCache/unknownFields are copied as is).
func init() {
	externals["google.golang.org/protobuf/proto.Clone"] = func(fr *frame, args []value) value {
		m := args[0].(iface)
		if m.t == nil {
			return m
		}
		return iface{m.t, fr.i.deepCopy(m.t, m.v, 0)}
	}
	// Marshal: only the empty message (every field zero), whose encoding is the empty string
	externals["google.golang.org/protobuf/proto.Marshal"] = func(fr *frame, args []value) value {
		m := args[0].(iface)
		if m.t == nil {
			return tuple{[]value(nil), iface{}}
		}
		pt, isPtr := m.t.Underlying().(*types.Pointer)
		p, _ := m.v.(*value)
		if !isPtr || p == nil {
			return tuple{[]value(nil), iface{}}
		}
		if !fr.i.deepEqual(pt.Elem(), *p, zero(pt.Elem()), 0) {
			panic(unsupported("proto.Marshal of a non-empty message"))
		}
		return tuple{[]value{}, iface{}}
	}
	externals["google.golang.org/protobuf/proto.Equal"] = func(fr *frame, args []value) value {
		a, b := args[0].(iface), args[1].(iface)
		if a.t == nil || b.t == nil {
			return a.t == nil && b.t == nil
		}
		if !types.Identical(a.t, b.t) {
			return false
		}
		return fr.i.deepEqual(a.t, a.v, b.v, 0)
	}
}

func (in *interpreter) deepCopy(T types.Type, v value, depth int) value {
	if depth > 40 {
		panic(unsupported("deepCopy recursion too deep"))
	}
	switch t := T.Underlying().(type) {
	case *types.Pointer:
		if h, isH := v.(uniqH); isH {
			return h
		}
		p := v.(*value)
		if p == nil {
			return p
		}
		cell := make([]value, 1)
		cell[0] = in.deepCopy(t.Elem(), *p, depth+1)
		in.noteRange(cell)
		in.noteAlloc(cell[0])
		return &cell[0]
	case *types.Struct:
		s := v.(structure)
		out := make(structure, len(s))
		for k := range s {
			out[k] = in.deepCopy(t.Field(k).Type(), s[k], depth+1)
		}
		return out
	case *types.Array:
		s := v.(array)
		out := make(array, len(s))
		for k := range s {
			out[k] = in.deepCopy(t.Elem(), s[k], depth+1)
		}
		return out
	case *types.Slice:
		s := v.([]value)
		if s == nil {
			return s
		}
		out := make([]value, len(s))
		for k := range s {
			out[k] = in.deepCopy(t.Elem(), s[k], depth+1)
		}
		in.noteRange(out)
		return out
	case *types.Map:
		m := v.(*mapV)
		if m == nil {
			return m
		}
		out := newMapV(t.Key())
		for _, e := range m.live() {
			in.mapInsert(out, e.key, in.deepCopy(t.Elem(), e.val, depth+1))
		}
		return out
	case *types.Interface:
		it := v.(iface)
		if it.t == nil {
			return it
		}
		return iface{it.t, in.deepCopy(it.t, it.v, depth+1)}
	}
	return v
}

// sort.Slice / SliceStable use reflectlite.Swapper; modelled as an insertion sort that calls the
// less function and swaps elements of the boxed slice (journaled writes).
func init() {
	sortSlice := func(fr *frame, args []value) value {
		in := fr.i
		it := args[0].(iface)
		s, ok := it.v.([]value)
		if !ok {
			panic(unsupported("sort.Slice on a non-slice"))
		}
		less := args[1]
		lt := func(a, b int) bool {
			r := call(in, fr, 0, less, []value{a, b})
			switch r := r.(type) {
			case bool:
				return r
			case *Term:
				return in.decideBool(r, "sortless")
			}
			panic("sort.Slice: less returned non-bool")
		}
		for i := 1; i < len(s); i++ {
			for j := i; j > 0 && lt(j, j-1); j-- {
				a, b := s[j], s[j-1]
				in.write(&s[j], b)
				in.write(&s[j-1], a)
			}
		}
		return nil
	}
	externals["sort.Slice"] = sortSlice
	externals["sort.SliceStable"] = sortSlice
}
