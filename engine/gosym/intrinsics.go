package gosym

import (
	"strings"
	"fmt"
	"go/types"
)

// Harness intrinsics: functions whose name starts with "verif", declared in the
// overlay file zz_verif_rt.go of the package under test, intercepted by name.

var intrinsics map[string]externalFn

func init() {
	intrinsics = map[string]externalFn{
		"verifBool":    func(fr *frame, a []value) value { return boolVal(fr.i.freshVar(cstr(a[0]), 0)) },
		"verifU8":      func(fr *frame, a []value) value { return fr.i.freshVar(cstr(a[0]), 8) },
		"verifU16":     func(fr *frame, a []value) value { return fr.i.freshVar(cstr(a[0]), 16) },
		"verifU32":     func(fr *frame, a []value) value { return fr.i.freshVar(cstr(a[0]), 32) },
		"verifU64":     func(fr *frame, a []value) value { return fr.i.freshVar(cstr(a[0]), 64) },
		"verifI32":     func(fr *frame, a []value) value { return fr.i.freshVar(cstr(a[0]), 32) },
		"verifI64":     func(fr *frame, a []value) value { return fr.i.freshVar(cstr(a[0]), 64) },
		"verifInt":     func(fr *frame, a []value) value { return fr.i.freshVar(cstr(a[0]), 64) },
		"verifF64":     func(fr *frame, a []value) value { return fr.i.freshVar(cstr(a[0]), 64) },
		"verifBytes":   intrBytes,
		"verifString":  intrString,
		"verifChoose":  intrChoose,
		"verifAssume":  intrAssume,
		"verifAssert":  intrAssert,
		"verifFail":    func(fr *frame, a []value) value { return intrAssert(fr, []value{a[0], false}) },
		"verifReach":   intrReach,
		"verifObserve": intrObserve,
		"verifParam":   intrParam,
		// verifHashCalls(name): number of cryptographic hash computations made so far on this path; the
		// value is pinned to a model variable so that the native replay (real hash, no counter) sees it
		"verifHashCalls": func(fr *frame, a []value) value {
			in := fr.i
			in.hashEpochCheck()
			n := asIntAny(in.tmp["hashInvocations"])
			v := in.freshVar(cstr(a[0]), 32)
			in.pc = append(in.pc, in.ctx.Eq(v, in.ctx.Const(32, uint64(n))))
			return n
		},
		"verifRaceMonitor": func(fr *frame, a []value) value {
			on, _ := a[0].(bool)
			fr.i.race = &raceMon{on: on, acc: map[*value][]raceAccess{}, held: map[*value]bool{}}
			return nil
		},
		"verifIsSym":   func(fr *frame, a []value) value { return containsSym(a[0]) },
		"verifConcretize": func(fr *frame, a []value) value {
			return int(fr.i.concreteInt(a[0]))
		},
	}
}

func cstr(v value) string {
	s, ok := v.(string)
	if !ok {
		panic(fmt.Sprintf("intrinsic needs a concrete string, got %T", v))
	}
	return s
}

func (in *interpreter) freshVar(name string, w uint8) *Term {
	if in.inMerge > 0 && !strings.HasPrefix(name, "clock.") {
		// inputs are numbered per name in call order (the native runtime does the same); an input drawn
		// inside a speculatively executed arm would be numbered differently from the native run
		panic(mergeAbort{"input drawn in arm"})
	}
	n := in.varCount[name]
	in.varCount[name] = n + 1
	full := name
	if n > 0 {
		full = fmt.Sprintf("%s#%d", name, n)
	}
	in.vars = append(in.vars, varRec{full, w})
	return in.ctx.Var(full, w)
}

func intrBytes(fr *frame, a []value) value {
	name := cstr(a[0])
	n := int(fr.i.concreteInt(a[1]))
	out := make([]value, n)
	for k := range out {
		out[k] = fr.i.freshVar(fmt.Sprintf("%s[%d]", name, k), 8)
	}
	fr.i.noteRange(out)
	return out
}

func intrString(fr *frame, a []value) value {
	b := intrBytes(fr, a).([]value)
	return mkstr(b)
}

func intrChoose(fr *frame, a []value) value {
	in := fr.i
	name := cstr(a[0])
	n := in.concreteInt(a[1])
	if n <= 0 {
		panic("verifChoose: n <= 0")
	}
	if n == 1 {
		return 0
	}
	// A fresh variable constrained only by v < n: every value 0..n-1 is feasible, so fork
	// directly (no solver enumeration).  The chosen value is pinned in the path condition so
	// that the model (and hence the native replay) carries it.
	v := in.freshVar(name, 32)
	c := in.ctx
	var k int
	in.noteWhy("choose:" + name)
	if in.pos < len(in.log) {
		k = int(in.log[in.pos])
		in.pos++
	} else {
		if in.inMerge > 0 {
			panic(mergeAbort{"choose in arm"})
		}
		base := append([]int64(nil), in.log...)
		for j := int(n) - 1; j >= 1; j-- {
			in.pushWork(append(append([]int64(nil), base...), int64(j)))
		}
		in.log = append(in.log, 0)
		in.pos++
		k = 0
	}
	in.pc = append(in.pc, c.Eq(v, c.Const(32, uint64(k))))
	return k
}

// assume adds t to the path condition; returns false if that makes the path infeasible.
func (in *interpreter) assume(t *Term) bool {
	if t.IsConst() {
		return t.K != 0
	}
	if in.pos < len(in.log) {
		// replay: feasibility was established on the first run
		e := in.log[in.pos]
		in.pos++
		if e == forcedBase+1 {
			return false
		}
		in.pc = append(in.pc, t)
		return true
	}
	if !in.feasible(t) {
		in.log = append(in.log, forcedBase+1)
		in.pos++
		return false
	}
	in.log = append(in.log, forcedBase+0)
	in.pos++
	in.pc = append(in.pc, t)
	return true
}

func intrAssume(fr *frame, a []value) value {
	in := fr.i
	switch c := a[0].(type) {
	case bool:
		if !c {
			panic(pathEnd{"infeasible", "assume(false)"})
		}
	case *Term:
		if in.inMerge > 0 {
			panic(mergeAbort{"assume in arm"})
		}
		if !in.assume(c) {
			panic(pathEnd{"infeasible", "assume"})
		}
	}
	return nil
}

func intrReach(fr *frame, a []value) value {
	fr.i.curPath.Sites[cstr(a[0])]++
	return nil
}

func intrAssert(fr *frame, a []value) value {
	in := fr.i
	site := cstr(a[0])
	in.curPath.Sites[site]++
	var neg *Term
	switch c := a[1].(type) {
	case bool:
		if c {
			return nil
		}
		neg = in.ctx.True
	case *Term:
		neg = in.ctx.Not(c)
	default:
		panic(fmt.Sprintf("verifAssert: cond is %T", c))
	}
	var r Result
	var m map[string]uint64
	if in.pos < len(in.log) {
		// replay of an assertion already discharged on the original run
		e := in.log[in.pos]
		in.pos++
		if e == forcedBase+0 {
			return nil
		}
		r, m = in.solver.Check(in.pc, neg, true)
	} else {
		r, m = in.solver.Check(in.pc, neg, true)
		if r == Unsat {
			in.log = append(in.log, forcedBase+0)
			in.pos++
			return nil
		}
		in.log = append(in.log, forcedBase+1)
		in.pos++
	}
	switch r {
	case Sat:
		note := ""
		if m2, ok := in.refineHashModel(neg, m); ok {
			m = m2
		} else {
			note = " (under the uninterpreted hash model only: no model with real digests found)"
		}
		in.curPath.Site = site
		in.curPath.Model = m
		panic(pathEnd{"violation", "assertion " + site + " can fail" + note})
	case Unknown:
		panic(pathEnd{"inconclusive", "solver unknown on assertion " + site})
	}
	// The asserted condition is implied by the path condition; it is deliberately not
	// added to it (it would only make every later query heavier).
	return nil
}

func intrObserve(fr *frame, a []value) value {
	fr.i.obs = append(fr.i.obs, obsRec{cstr(a[0]), a[1]})
	return nil
}

type obsRec struct {
	tag string
	v   value
}

// renderObs formats an observed value under a model the way the native runtime prints it (%v).
func (in *interpreter) renderObs(v value, model map[string]uint64, memo map[int]uint64, T types.Type) string {
	switch x := v.(type) {
	case iface:
		if x.t == nil {
			return "<nil>"
		}
		return in.renderObs(x.v, model, memo, x.t)
	case *Term:
		k, _ := evalTerm(x, model, memo)
		if T != nil {
			w, signed, fl, ok := basicInfo(T)
			if ok && !fl {
				if w == 0 {
					return fmt.Sprint(k != 0)
				}
				if signed {
					return fmt.Sprint(signExt(k, w))
				}
				return fmt.Sprint(k)
			}
		}
		if x.W == 0 {
			return fmt.Sprint(k != 0)
		}
		return fmt.Sprint(k)
	case symstr:
		bs := make([]byte, len(x.b))
		for i, b := range x.b {
			switch b := b.(type) {
			case uint8:
				bs[i] = b
			case *Term:
				k, _ := evalTerm(b, model, memo)
				bs[i] = byte(k)
			}
		}
		return string(bs)
	case []value:
		out := "["
		var et types.Type
		if T != nil {
			if st, ok := T.Underlying().(*types.Slice); ok {
				et = st.Elem()
			}
		}
		for i, e := range x {
			if i > 0 {
				out += " "
			}
			out += in.renderObs(e, model, memo, et)
		}
		return out + "]"
	}
	return toString(v)
}

func intrParam(fr *frame, a []value) value {
	name := cstr(a[0])
	def := asInt64(a[1])
	if fr.i.ex != nil {
		if v, ok := fr.i.ex.Cfg.Params[name]; ok {
			return int(v)
		}
	}
	return int(def)
}

var _ = types.Typ
