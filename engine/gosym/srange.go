package gosym

import "math"

// Signed interval analysis over terms (conservative, structural): used to discharge overflow and
// division-by-constant patterns that bit-blasting solvers cannot (e.g. (x*1e9)/1e9 over 64 bits,
// as produced by package time on symbolic instants).

type srng struct {
	lo, hi int64
	ok     bool
	exact  bool // every +,-,*,neg node below computes its mathematical result (no wrap-around)
}

var srMemoLimit = 1 << 20

func widthRange(w uint8) (int64, int64) {
	if w >= 64 {
		return math.MinInt64, math.MaxInt64
	}
	return -(int64(1) << (w - 1)), int64(1)<<(w-1) - 1
}

func addOv(a, b int64) (int64, bool) {
	r := a + b
	if (a > 0 && b > 0 && r < 0) || (a < 0 && b < 0 && r >= 0) {
		return 0, false
	}
	return r, true
}

func mulOv(a, b int64) (int64, bool) {
	if a == 0 || b == 0 {
		return 0, true
	}
	r := a * b
	if r/b != a || (a == -1 && b == math.MinInt64) || (b == -1 && a == math.MinInt64) {
		return 0, false
	}
	return r, true
}

// sRange: signed interval of a bit-vector term interpreted in two's complement at its width.
func (c *TermCtx) sRange(t *Term) (int64, int64, bool) {
	if t.W == 0 {
		return 0, 0, false
	}
	if c.srMemo == nil {
		c.srMemo = map[int]srng{}
	}
	if r, ok := c.srMemo[t.ID]; ok {
		return r.lo, r.hi, r.ok
	}
	r := c.sRangeFull(t)
	return r.lo, r.hi, r.ok
}

func (c *TermCtx) sRangeFull(t *Term) srng {
	if c.srMemo == nil {
		c.srMemo = map[int]srng{}
	}
	if r, ok := c.srMemo[t.ID]; ok {
		return r
	}
	lo, hi, ok := c.sRange1(t)
	if ok {
		wl, wh := widthRange(t.W)
		if lo < wl || hi > wh || lo > hi {
			ok = false
		}
	}
	exact := true
	switch t.Op {
	case OpBVAdd, OpBVSub, OpBVNeg, OpBVMul:
		exact = ok
		for _, a := range t.Args {
			exact = exact && c.sRangeFull(a).exact
		}
	}
	if !ok && t.W < 64 {
		lo, hi = widthRange(t.W)
		ok = true
	}
	r := srng{lo, hi, ok, exact}
	if len(c.srMemo) < srMemoLimit {
		c.srMemo[t.ID] = r
	}
	return r
}

// factorOut: a term q with t == q*k as mathematical integers (t exact, k > 0), or nil.
func (c *TermCtx) factorOut(t *Term, k int64) *Term {
	if k == 1 {
		return t
	}
	switch t.Op {
	case OpConst:
		v := signExt(t.K, t.W)
		if v%k == 0 {
			return c.Const(t.W, uint64(v/k))
		}
	case OpBVMul:
		a, b := t.Args[0], t.Args[1]
		if a.IsConst() {
			a, b = b, a
		}
		if b.IsConst() {
			kk := signExt(b.K, b.W)
			if kk%k == 0 {
				return c.BV(OpBVMul, a, c.Const(t.W, uint64(kk/k)))
			}
			if q := c.factorOut(a, k); q != nil {
				return c.BV(OpBVMul, q, b)
			}
		}
	case OpBVAdd, OpBVSub:
		qa := c.factorOut(t.Args[0], k)
		if qa == nil {
			return nil
		}
		qb := c.factorOut(t.Args[1], k)
		if qb == nil {
			return nil
		}
		return c.BV(t.Op, qa, qb)
	case OpBVNeg:
		if q := c.factorOut(t.Args[0], k); q != nil {
			return c.BVNeg(q)
		}
	}
	return nil
}

// exactMultiple: t == q*k exactly (no wrap-around anywhere in t's arithmetic).
func (c *TermCtx) exactMultiple(t *Term, k int64) *Term {
	if k <= 0 || t.IsConst() {
		return nil
	}
	switch t.Op {
	case OpBVAdd, OpBVSub, OpBVNeg, OpBVMul:
	default:
		return nil
	}
	if !c.sRangeFull(t).exact {
		return nil
	}
	return c.factorOut(t, k)
}

func (c *TermCtx) sRange1(t *Term) (int64, int64, bool) {
	switch t.Op {
	case OpConst:
		v := signExt(t.K, t.W)
		return v, v, true
	case OpZExt:
		x := t.Args[0]
		if x.W < 64 {
			m := knownMax(x)
			if m <= mask(x.W) && m <= math.MaxInt64 {
				return 0, int64(m), true
			}
		}
	case OpSExt:
		return c.sRange(t.Args[0])
	case OpIte:
		l1, h1, ok1 := c.sRange(t.Args[1])
		l2, h2, ok2 := c.sRange(t.Args[2])
		if ok1 && ok2 {
			return min(l1, l2), max(h1, h2), true
		}
	case OpBVAdd, OpBVSub:
		l1, h1, ok1 := c.sRange(t.Args[0])
		l2, h2, ok2 := c.sRange(t.Args[1])
		if ok1 && ok2 {
			if t.Op == OpBVSub {
				if l2 == math.MinInt64 {
					return 0, 0, false
				}
				l2, h2 = -h2, -l2
			}
			lo, okl := addOv(l1, l2)
			hi, okh := addOv(h1, h2)
			if okl && okh {
				return lo, hi, true
			}
		}
	case OpBVNeg:
		l, h, ok := c.sRange(t.Args[0])
		if ok && l != math.MinInt64 {
			return -h, -l, true
		}
	case OpBVMul:
		a, b := t.Args[0], t.Args[1]
		if a.IsConst() {
			a, b = b, a
		}
		if b.IsConst() {
			k := signExt(b.K, b.W)
			l, h, ok := c.sRange(a)
			if ok {
				x, ok1 := mulOv(l, k)
				y, ok2 := mulOv(h, k)
				if ok1 && ok2 {
					return min(x, y), max(x, y), true
				}
			}
		}
	case OpBVAnd:
		for _, x := range t.Args {
			if x.IsConst() && signExt(x.K, x.W) >= 0 {
				return 0, signExt(x.K, x.W), true
			}
		}
	case OpBVURem:
		if d := t.Args[1]; d.IsConst() && d.K != 0 && signExt(d.K, d.W) > 0 {
			return 0, signExt(d.K, d.W) - 1, true
		}
	case OpBVSRem:
		if d := t.Args[1]; d.IsConst() && signExt(d.K, d.W) > 0 {
			k := signExt(d.K, d.W)
			l, h, ok := c.sRange(t.Args[0])
			if ok && l >= 0 {
				return 0, min(h, k-1), true
			}
			return -(k - 1), k - 1, true
		}
	case OpBVSDiv:
		if d := t.Args[1]; d.IsConst() && signExt(d.K, d.W) > 0 {
			k := signExt(d.K, d.W)
			l, h, ok := c.sRange(t.Args[0])
			if ok {
				return l / k, h / k, true
			}
		}
	case OpBVLShr:
		if s := t.Args[1]; s.IsConst() && s.K > 0 && s.K < uint64(t.W) {
			return 0, int64(mask(t.W) >> s.K), true
		}
	}
	if m := knownMax(t); m <= mask(t.W)>>1 {
		return 0, int64(m), true
	}
	return 0, 0, false
}

// mulByConst: t == x * k (k > 0 constant) with the product known not to overflow.
func (c *TermCtx) mulByConst(t *Term) (*Term, int64, bool) {
	if t.Op != OpBVMul {
		return nil, 0, false
	}
	a, b := t.Args[0], t.Args[1]
	if a.IsConst() {
		a, b = b, a
	}
	if !b.IsConst() {
		return nil, 0, false
	}
	k := signExt(b.K, b.W)
	if k <= 0 {
		return nil, 0, false
	}
	if _, _, ok := c.sRange(t); !ok { // sRange of a product is ok only when it cannot overflow
		return nil, 0, false
	}
	if t.W < 64 {
		// sRange falls back to the full width range for narrow terms: re-check the product itself
		l, h, ok := c.sRange(a)
		if !ok {
			return nil, 0, false
		}
		x, ok1 := mulOv(l, k)
		y, ok2 := mulOv(h, k)
		wl, wh := widthRange(t.W)
		if !ok1 || !ok2 || min(x, y) < wl || max(x, y) > wh {
			return nil, 0, false
		}
	}
	return a, k, true
}

// strictOK: the interval of an arithmetic node was computed (not the width fallback).
func (c *TermCtx) strictOK(t *Term) bool {
	lo, hi, ok := c.sRange1(t)
	if !ok {
		return false
	}
	wl, wh := widthRange(t.W)
	return lo >= wl && hi <= wh
}
