package gosym

import (
	"fmt"
	"go/token"
	"go/types"
	"math"
	"strings"

	"golang.org/x/tools/go/ssa"
)

// symstr is a string with a concrete length whose bytes may be symbolic
// (each element is uint8 or *Term of width 8).
type symstr struct{ b []value }

func (s symstr) String() string {
	var sb strings.Builder
	for _, c := range s.b {
		if b, ok := c.(uint8); ok {
			sb.WriteByte(b)
		} else {
			sb.WriteString("⟨" + c.(*Term).String() + "⟩")
		}
	}
	return sb.String()
}

func strBytes(s string) []value {
	out := make([]value, len(s))
	for i := 0; i < len(s); i++ {
		out[i] = s[i]
	}
	return out
}

// mkstr builds a string value from bytes; concrete if all bytes are.
func mkstr(b []value) value {
	allc := true
	for _, c := range b {
		if _, ok := c.(uint8); !ok {
			allc = false
			break
		}
	}
	if allc {
		bs := make([]byte, len(b))
		for i, c := range b {
			bs[i] = c.(uint8)
		}
		return string(bs)
	}
	cp := make([]value, len(b))
	copy(cp, b)
	return symstr{cp}
}

func bytesOfStr(v value) ([]value, bool) {
	switch s := v.(type) {
	case string:
		return strBytes(s), true
	case symstr:
		return s.b, true
	}
	return nil, false
}

// basicInfo returns width, signedness, floatness for a basic-typed static type.
func basicInfo(t types.Type) (w uint8, signed, float, ok bool) {
	b, isb := t.Underlying().(*types.Basic)
	if !isb {
		return 0, false, false, false
	}
	switch b.Kind() {
	case types.Bool, types.UntypedBool:
		return 0, false, false, true
	case types.Int8:
		return 8, true, false, true
	case types.Int16:
		return 16, true, false, true
	case types.Int32, types.UntypedRune:
		return 32, true, false, true
	case types.Int, types.Int64, types.UntypedInt:
		return 64, true, false, true
	case types.Uint8:
		return 8, false, false, true
	case types.Uint16:
		return 16, false, false, true
	case types.Uint32:
		return 32, false, false, true
	case types.Uint, types.Uint64, types.Uintptr:
		return 64, false, false, true
	case types.Float64, types.UntypedFloat:
		return 64, true, true, true
	case types.Float32:
		return 32, true, true, true
	}
	return 0, false, false, false
}

// termOf converts a concrete scalar to a constant term (by dynamic Go type).
func (in *interpreter) termOf(v value) (*Term, bool) {
	c := in.ctx
	switch x := v.(type) {
	case *Term:
		return x, true
	case bool:
		return c.Bool(x), true
	case int:
		return c.Const(64, uint64(x)), true
	case int8:
		return c.Const(8, uint64(x)), true
	case int16:
		return c.Const(16, uint64(x)), true
	case int32:
		return c.Const(32, uint64(x)), true
	case int64:
		return c.Const(64, uint64(x)), true
	case uint:
		return c.Const(64, uint64(x)), true
	case uint8:
		return c.Const(8, uint64(x)), true
	case uint16:
		return c.Const(16, uint64(x)), true
	case uint32:
		return c.Const(32, uint64(x)), true
	case uint64:
		return c.Const(64, x), true
	case uintptr:
		return c.Const(64, uint64(x)), true
	case float64:
		return c.Const(64, math.Float64bits(x)), true
	}
	return nil, false
}

// fromTerm returns a concrete typed value when t is constant, else t.
func fromTerm(T types.Type, t *Term) value {
	if !t.IsConst() {
		return t
	}
	return constOfType(T, t.K)
}

func constOfType(T types.Type, k uint64) value {
	b, ok := T.Underlying().(*types.Basic)
	if !ok {
		panic("constOfType: non-basic " + T.String())
	}
	switch b.Kind() {
	case types.Bool, types.UntypedBool:
		return k != 0
	case types.Int, types.UntypedInt:
		return int(k)
	case types.Int8:
		return int8(k)
	case types.Int16:
		return int16(k)
	case types.Int32, types.UntypedRune:
		return int32(k)
	case types.Int64:
		return int64(k)
	case types.Uint:
		return uint(k)
	case types.Uint8:
		return uint8(k)
	case types.Uint16:
		return uint16(k)
	case types.Uint32:
		return uint32(k)
	case types.Uint64:
		return uint64(k)
	case types.Uintptr:
		return uintptr(k)
	case types.Float64, types.UntypedFloat:
		return math.Float64frombits(k)
	}
	panic("constOfType: " + T.String())
}

func boolVal(t *Term) value {
	if t.IsConst() {
		return t.K != 0
	}
	return t
}

func isSymScalar(v value) bool {
	_, ok := v.(*Term)
	return ok
}

func isStrType(t types.Type) bool {
	b, ok := t.Underlying().(*types.Basic)
	return ok && b.Info()&types.IsString != 0
}

// symBinop handles binary operators when an operand is symbolic.
func (in *interpreter) symBinop(op token.Token, t types.Type, x, y value) (value, bool) {
	c := in.ctx
	if op == token.EQL || op == token.NEQ {
		if !containsSym(x) && !containsSym(y) {
			return nil, false
		}
		// nil comparisons for reference types stay concrete
		switch t.Underlying().(type) {
		case *types.Map, *types.Signature, *types.Slice, *types.Pointer, *types.Chan:
			return nil, false
		}
		r := in.symEquals(t, x, y)
		if op == token.NEQ {
			switch r := r.(type) {
			case bool:
				return !r, true
			case *Term:
				return boolVal(c.Not(r)), true
			}
		}
		return r, true
	}
	_, xs := x.(*Term)
	_, ys := y.(*Term)
	_, xss := x.(symstr)
	_, yss := y.(symstr)
	_, xo := x.(opaqueStr)
	_, yo := y.(opaqueStr)
	if xo || yo {
		if op == token.ADD {
			return opaqueStr{"concat"}, true
		}
		panic(unsupported("comparison of a string formatted from symbolic values"))
	}
	if !xs && !ys && !xss && !yss {
		return nil, false
	}
	if isStrType(t) {
		xb, _ := bytesOfStr(x)
		yb, _ := bytesOfStr(y)
		switch op {
		case token.ADD:
			out := make([]value, 0, len(xb)+len(yb))
			out = append(out, xb...)
			out = append(out, yb...)
			return mkstr(out), true
		case token.LSS:
			return boolVal(in.strLess(xb, yb, false)), true
		case token.LEQ:
			return boolVal(in.strLess(xb, yb, true)), true
		case token.GTR:
			return boolVal(in.strLess(yb, xb, false)), true
		case token.GEQ:
			return boolVal(in.strLess(yb, xb, true)), true
		}
		panic(unsupported(fmt.Sprintf("string binop %s on symbolic string", op)))
	}
	w, signed, float, ok := basicInfo(t)
	if !ok {
		panic(unsupported(fmt.Sprintf("symbolic binop %s on %s", op, t)))
	}
	xt, _ := in.termOf(x)
	yt, _ := in.termOf(y)
	if float {
		if w != 64 {
			panic(unsupported("symbolic float32"))
		}
		switch op {
		case token.LSS:
			return boolVal(c.FCmp(OpFLt, xt, yt)), true
		case token.LEQ:
			return boolVal(c.FCmp(OpFLe, xt, yt)), true
		case token.GTR:
			return boolVal(c.FCmp(OpFLt, yt, xt)), true
		case token.GEQ:
			return boolVal(c.FCmp(OpFLe, yt, xt)), true
		}
		panic(unsupported(fmt.Sprintf("symbolic float arithmetic %s", op)))
	}
	if w == 0 {
		panic(unsupported(fmt.Sprintf("bool binop %s", op)))
	}
	switch op {
	case token.SHL, token.SHR:
		// y may have any integer type; normalise to x's width with saturation.
		if yc, isConc := y.(*Term); !isConc {
			_ = yc
			if _, nonneg := asUnsigned(y); !nonneg {
				panic(runtimeError("negative shift amount"))
			}
			k := uint64(asInt64(y))
			if k > uint64(w) {
				k = uint64(w)
			}
			yt = c.Const(w, k)
		} else {
			if yt.W > w {
				hi := c.Extract(yt, yt.W-1, w)
				ovf := c.Not(c.Eq(hi, c.Const(yt.W-w, 0)))
				yt = c.Ite(ovf, c.Const(w, uint64(w)), c.Extract(yt, w-1, 0))
			} else if yt.W < w {
				yt = c.ZExt(yt, w)
			}
		}
		var r *Term
		switch {
		case op == token.SHL:
			r = c.BV(OpBVShl, xt, yt)
		case signed:
			r = c.BV(OpBVAShr, xt, yt)
		default:
			r = c.BV(OpBVLShr, xt, yt)
		}
		return fromTerm(t, r), true
	}
	if xt.W != w || yt.W != w {
		panic(fmt.Sprintf("symBinop width mismatch: %s %d %d (%s)", op, xt.W, yt.W, t))
	}
	var r *Term
	switch op {
	case token.ADD:
		r = c.BV(OpBVAdd, xt, yt)
	case token.SUB:
		r = c.BV(OpBVSub, xt, yt)
	case token.MUL:
		r = c.BV(OpBVMul, xt, yt)
	case token.QUO, token.REM:
		if !yt.IsConst() {
			if in.decideBool(c.Eq(yt, c.Const(w, 0)), "divzero") {
				panic(runtimeError("integer divide by zero"))
			}
		} else if yt.K == 0 {
			panic(runtimeError("integer divide by zero"))
		}
		switch {
		case op == token.QUO && signed:
			r = c.BV(OpBVSDiv, xt, yt)
		case op == token.QUO:
			r = c.BV(OpBVUDiv, xt, yt)
		case signed:
			r = c.BV(OpBVSRem, xt, yt)
		default:
			r = c.BV(OpBVURem, xt, yt)
		}
	case token.AND:
		r = c.BV(OpBVAnd, xt, yt)
	case token.OR:
		r = c.BV(OpBVOr, xt, yt)
	case token.XOR:
		r = c.BV(OpBVXor, xt, yt)
	case token.AND_NOT:
		r = c.BV(OpBVAnd, xt, c.BVNot(yt))
	case token.LSS, token.LEQ, token.GTR, token.GEQ:
		a, b := xt, yt
		if op == token.GTR || op == token.GEQ {
			a, b = b, a
		}
		strict := op == token.LSS || op == token.GTR
		var o Op
		switch {
		case signed && strict:
			o = OpSLt
		case signed:
			o = OpSLe
		case strict:
			o = OpULt
		default:
			o = OpULe
		}
		return boolVal(c.Cmp(o, a, b)), true
	default:
		panic(unsupported(fmt.Sprintf("symbolic binop %s", op)))
	}
	return fromTerm(t, r), true
}

// strLess builds the lexicographic comparison a < b (or <= when orEq).
func (in *interpreter) strLess(a, b []value, orEq bool) *Term {
	c := in.ctx
	n := len(a)
	if len(b) < n {
		n = len(b)
	}
	// tail: all common bytes equal
	var res *Term
	if len(a) < len(b) {
		res = c.True
	} else if len(a) == len(b) {
		res = c.Bool(orEq)
	} else {
		res = c.False
	}
	for k := n - 1; k >= 0; k-- {
		x, _ := in.termOf(a[k])
		y, _ := in.termOf(b[k])
		res = c.Ite(c.Cmp(OpULt, x, y), c.True, c.Ite(c.Eq(x, y), res, c.False))
	}
	return res
}

func (in *interpreter) symUnop(instr *ssa.UnOp, x *Term) value {
	c := in.ctx
	T := instr.X.Type()
	switch instr.Op {
	case token.NOT:
		return boolVal(c.Not(x))
	case token.SUB:
		if _, _, fl, _ := basicInfo(T); fl {
			panic(unsupported("symbolic float negation"))
		}
		return fromTerm(T, c.BVNeg(x))
	case token.XOR:
		return fromTerm(T, c.BVNot(x))
	}
	panic(unsupported(fmt.Sprintf("symbolic unop %s", instr.Op)))
}

// symEquals returns x == y as bool or *Term.
func (in *interpreter) symEquals(t types.Type, x, y value) value {
	c := in.ctx
	if !containsSym(x) && !containsSym(y) {
		switch t.Underlying().(type) {
		case *types.Map, *types.Signature, *types.Slice:
			return eqnil(t, x, y)
		}
		return equals(t, x, y)
	}
	switch xv := x.(type) {
	case structure:
		yv := y.(structure)
		st := t.Underlying().(*types.Struct)
		acc := c.True
		for k := 0; k < st.NumFields(); k++ {
			if st.Field(k).Name() == "_" {
				continue
			}
			switch r := in.symEquals(st.Field(k).Type(), xv[k], yv[k]).(type) {
			case bool:
				if !r {
					return false
				}
			case *Term:
				acc = c.And(acc, r)
			}
		}
		return boolVal(acc)
	case array:
		yv := y.(array)
		et := t.Underlying().(*types.Array).Elem()
		acc := c.True
		for k := range xv {
			switch r := in.symEquals(et, xv[k], yv[k]).(type) {
			case bool:
				if !r {
					return false
				}
			case *Term:
				acc = c.And(acc, r)
			}
		}
		return boolVal(acc)
	case iface:
		yv := y.(iface)
		if !sameType(xv.t, yv.t) {
			return false
		}
		if xv.t == nil {
			return true
		}
		return in.symEquals(xv.t, xv.v, yv.v)
	case uniqH:
		yv, ok := y.(uniqH)
		if !ok {
			return false
		}
		return in.symEquals(xv.t, xv.v, yv.v)
	case *value:
		if _, ok := y.(uniqH); ok {
			return false
		}
	}
	if xb, ok := bytesOfStr(x); ok {
		yb, ok2 := bytesOfStr(y)
		if !ok2 {
			panic(fmt.Sprintf("symEquals: string vs %T", y))
		}
		if len(xb) != len(yb) {
			return false
		}
		acc := c.True
		for k := range xb {
			a, _ := in.termOf(xb[k])
			b, _ := in.termOf(yb[k])
			acc = c.And(acc, c.Eq(a, b))
			if acc == c.False {
				return false
			}
		}
		return boolVal(acc)
	}
	xt, ok1 := in.termOf(x)
	yt, ok2 := in.termOf(y)
	if !ok1 || !ok2 {
		panic(fmt.Sprintf("symEquals: unsupported operands %T %T (%s)", x, y, t))
	}
	if _, _, fl, _ := basicInfo(t); fl {
		return boolVal(c.FCmp(OpFEq, xt, yt))
	}
	return boolVal(c.Eq(xt, yt))
}

// symConv handles conversions of symbolic values.
func (in *interpreter) symConv(t_dst, t_src types.Type, x value) (value, bool) {
	c := in.ctx
	switch xv := x.(type) {
	case *Term:
		sw, ssigned, sfl, ok := basicInfo(t_src)
		dw, _, dfl, ok2 := basicInfo(t_dst)
		if !ok || !ok2 {
			panic(unsupported(fmt.Sprintf("symbolic conversion %s -> %s", t_src, t_dst)))
		}
		if sfl || dfl {
			if sfl && dfl && sw == dw {
				return xv, true
			}
			panic(unsupported(fmt.Sprintf("symbolic float conversion %s -> %s", t_src, t_dst)))
		}
		if sw == 0 || dw == 0 {
			if sw == dw {
				return xv, true
			}
			panic(unsupported("bool conversion"))
		}
		var r *Term
		switch {
		case dw == sw:
			r = xv
		case dw < sw:
			r = c.Extract(xv, dw-1, 0)
		case ssigned:
			r = c.SExt(xv, dw)
		default:
			r = c.ZExt(xv, dw)
		}
		return fromTerm(t_dst, r), true
	case symstr:
		switch ut := t_dst.Underlying().(type) {
		case *types.Basic:
			if ut.Info()&types.IsString != 0 {
				return xv, true
			}
		case *types.Slice:
			if eb, ok := ut.Elem().Underlying().(*types.Basic); ok && eb.Kind() == types.Uint8 {
				out := make([]value, len(xv.b))
				copy(out, xv.b)
				return out, true
			}
		}
		panic(unsupported(fmt.Sprintf("symbolic string conversion -> %s", t_dst)))
	case []value:
		if isStrType(t_dst) {
			if st, ok := t_src.Underlying().(*types.Slice); ok {
				if eb, ok := st.Elem().Underlying().(*types.Basic); ok && eb.Kind() == types.Uint8 {
					for _, e := range xv {
						if _, s := e.(*Term); s {
							return mkstr(xv), true
						}
					}
				}
			}
		}
	}
	return nil, false
}

// int64Term widens an integer value of static type T to a 64-bit term/concrete int64.
func (in *interpreter) widen64(T types.Type, v value) value {
	t, ok := v.(*Term)
	if !ok {
		return v
	}
	_, signed, _, _ := basicInfo(T)
	if t.W == 64 {
		return t
	}
	if signed {
		return in.ctx.SExt(t, 64)
	}
	return in.ctx.ZExt(t, 64)
}

// concreteInt returns a concrete int64 for v, forking over feasible values when symbolic.
// Symbolic values narrower than 64 bits are treated as unsigned.
func (in *interpreter) concreteInt(v value) int64 {
	t, ok := v.(*Term)
	if !ok {
		return asInt64(v)
	}
	if t.W < 64 {
		t = in.ctx.ZExt(t, 64)
	}
	return int64(in.decideValue(t, "concretize"))
}

// indexInt returns a concrete in-range index (panics like Go on out-of-range).
func (in *interpreter) indexInt(idx value, n int) int64 {
	t, ok := idx.(*Term)
	if !ok {
		k := asInt64(idx)
		if k < 0 || k >= int64(n) {
			panic(runtimeError(fmt.Sprintf("index out of range [%d] with length %d", k, n)))
		}
		return k
	}
	in.boundsCheck(t, n)
	return in.concreteInt(t)
}

func (in *interpreter) boundsCheck(t *Term, n int) {
	c := in.ctx
	t64 := t
	if t.W < 64 {
		t64 = c.ZExt(t, 64)
	}
	inb := c.Cmp(OpULt, t64, c.Const(64, uint64(n)))
	if inb.IsConst() {
		if inb.K == 0 {
			panic(runtimeError(fmt.Sprintf("index out of range with length %d", n)))
		}
		return
	}
	if !in.decideBool(inb, "bounds") {
		panic(runtimeError(fmt.Sprintf("index out of range [symbolic] with length %d", n)))
	}
}

// symPtr is &elems[idx] for a symbolic in-range idx over scalar elements.
type symPtr struct {
	elems []value
	idx   *Term
}

// symStore writes v through a symbolic element pointer: every element becomes ite(idx==k, v, old).
func (in *interpreter) symStore(sp symPtr, v value) {
	c := in.ctx
	for k := range sp.elems {
		m, ok := in.iteValue(c.Eq(sp.idx, c.Const(sp.idx.W, uint64(k))), v, sp.elems[k])
		if !ok {
			panic(unsupported("store through symbolic index of unmergeable values"))
		}
		in.write(&sp.elems[k], m)
	}
}

// indexValue returns elems[idx]; symbolic idx over scalar elements yields an ite chain.
func (in *interpreter) indexValue(elems []value, idx value) value {
	t, ok := idx.(*Term)
	if !ok {
		k := asInt64(idx)
		if k < 0 || k >= int64(len(elems)) {
			panic(runtimeError(fmt.Sprintf("index out of range [%d] with length %d", k, len(elems))))
		}
		return elems[k]
	}
	in.boundsCheck(t, len(elems))
	return in.indexValueNoCheck(elems, t)
}

func (in *interpreter) indexValueNoCheck(elems []value, t *Term) value {
	c := in.ctx
	// all scalars of same width?
	var terms []*Term
	okAll := len(elems) <= 1024
	for _, e := range elems {
		if !okAll {
			break
		}
		et, ok := in.termOf(e)
		if !ok || (len(terms) > 0 && et.W != terms[0].W) {
			okAll = false
			break
		}
		if _, isf := e.(float64); isf {
			okAll = false
		}
		terms = append(terms, et)
	}
	if !okAll {
		return elems[in.concreteInt(t)]
	}
	res := terms[len(terms)-1]
	for k := len(terms) - 2; k >= 0; k-- {
		res = c.Ite(c.Eq(t, c.Const(t.W, uint64(k))), terms[k], res)
	}
	if res.IsConst() {
		// recover typed concrete via sample element
		return retype(elems[0], res.K)
	}
	return res
}

// retype builds a concrete value with the dynamic type of sample and bits k.
func retype(sample value, k uint64) value {
	switch sample.(type) {
	case bool:
		return k != 0
	case int:
		return int(k)
	case int8:
		return int8(k)
	case int16:
		return int16(k)
	case int32:
		return int32(k)
	case int64:
		return int64(k)
	case uint:
		return uint(k)
	case uint8:
		return uint8(k)
	case uint16:
		return uint16(k)
	case uint32:
		return uint32(k)
	case uint64:
		return k
	case uintptr:
		return uintptr(k)
	}
	panic(fmt.Sprintf("retype %T", sample))
}

// cloneAggregate copies struct and array values (value semantics): slice elements written by copy and
// append must not share the element objects, because a later element assignment stores field by
// field in place (a shifted element and the slot it came from would otherwise change together).
func cloneAggregate(v value) value {
	switch x := v.(type) {
	case structure:
		c := make(structure, len(x))
		for i := range x {
			c[i] = cloneAggregate(x[i])
		}
		return c
	case array:
		c := make(array, len(x))
		for i := range x {
			c[i] = cloneAggregate(x[i])
		}
		return c
	}
	return v
}

func (in *interpreter) appendValues(s []value, elems []value) []value {
	if len(elems) == 0 {
		return s
	}
	n := len(s) + len(elems)
	if n <= cap(s) {
		ext := s[:n]
		for k, e := range elems {
			in.write(&ext[len(s)+k], cloneAggregate(e))
		}
		return ext
	}
	newcap := 2 * cap(s)
	if newcap < n {
		newcap = n
	}
	if newcap < 4 {
		newcap = 4
	}
	out := make([]value, n, newcap)
	for k := range s {
		out[k] = cloneAggregate(s[k])
	}
	for k := range elems {
		out[len(s)+k] = cloneAggregate(elems[k])
	}
	in.noteRange(out[:newcap])
	return out
}

func (in *interpreter) symMinMax(fn *ssa.Builtin, args []value) value {
	c := in.ctx
	T := fn.Type().(*types.Signature).Params().At(0).Type()
	if isStrType(T) {
		panic(unsupported("min/max on symbolic strings"))
	}
	_, signed, fl, _ := basicInfo(T)
	if fl {
		panic(unsupported("min/max on symbolic floats"))
	}
	acc, _ := in.termOf(args[0])
	for _, a := range args[1:] {
		at, _ := in.termOf(a)
		op := OpULt
		if signed {
			op = OpSLt
		}
		var lt *Term
		if fn.Name() == "min" {
			lt = c.Cmp(op, at, acc)
		} else {
			lt = c.Cmp(op, acc, at)
		}
		acc = c.Ite(lt, at, acc)
	}
	return fromTerm(T, acc)
}

type symstrIter struct {
	in *interpreter
	s  symstr
	i  int
}

func (it *symstrIter) next() tuple {
	if it.i >= len(it.s.b) {
		return tuple{false, nil, nil}
	}
	pos := it.i
	switch b := it.s.b[pos].(type) {
	case uint8:
		if b < 0x80 {
			it.i++
			return tuple{true, pos, int32(b)}
		}
		panic(unsupported("non-ASCII byte in symbolic string range"))
	case *Term:
		c := it.in.ctx
		if !it.in.decideBool(c.Cmp(OpULt, b, c.Const(8, 0x80)), "ascii") {
			panic(pathEnd{"inconclusive", "range over symbolic string with non-ASCII byte (outside bound: ASCII only)"})
		}
		it.i++
		return tuple{true, pos, fromTerm(types.Typ[types.Int32], c.ZExt(b, 32))}
	}
	panic("symstrIter")
}

func (in *interpreter) mapRange(m *mapV) iter {
	it := &mapVIter{i: in, m: m}
	if in.ex != nil && in.ex.Cfg.PermuteRanges > 0 && m != nil {
		live := m.live()
		if n := len(live); n >= 2 && n <= in.ex.Cfg.PermuteRanges {
			perms := permutations(n)
			k := in.choose(len(perms), "maporder")
			ord := make([]*mapEntry, n)
			for a, b := range perms[k] {
				ord[a] = live[b]
			}
			it.order = ord
		}
	}
	return it
}

func permutations(n int) [][]int {
	if n == 1 {
		return [][]int{{0}}
	}
	var out [][]int
	for _, p := range permutations(n - 1) {
		for pos := 0; pos <= len(p); pos++ {
			q := make([]int, 0, n)
			q = append(q, p[:pos]...)
			q = append(q, n-1)
			q = append(q, p[pos:]...)
			out = append(out, q)
		}
	}
	return out
}

func (in *interpreter) doSelect(instr *ssa.Select, fr *frame) value {
	// deterministic: first ready case in source order; else default; else inconclusive.
	chosen := -1
	var recvV value
	recvOk := false
	for pass := 0; pass < 2 && chosen < 0; pass++ {
		for k, st := range instr.States {
			ch := fr.get(st.Chan).(*chanV)
			if ch == nil {
				continue
			}
			if st.Dir == types.RecvOnly {
				if len(ch.buf) > 0 || ch.closed {
					recvV, recvOk = in.chanRecv(ch, st.Chan.Type().Underlying().(*types.Chan).Elem())
					chosen = k
					break
				}
			} else {
				in.chanSend(ch, fr.get(st.Send))
				chosen = k
				break
			}
		}
		if chosen < 0 && pass == 0 {
			if len(in.goq) == 0 {
				break
			}
			in.runGoroutines()
		}
	}
	if chosen < 0 && instr.Blocking {
		panic(pathEnd{"inconclusive", "blocking select with no ready case"})
	}
	r := tuple{chosen, recvOk}
	for k, st := range instr.States {
		if st.Dir == types.RecvOnly {
			var v value
			if k == chosen && recvOk {
				v = recvV
			} else {
				v = zero(st.Chan.Type().Underlying().(*types.Chan).Elem())
			}
			r = append(r, v)
		}
	}
	return r
}
