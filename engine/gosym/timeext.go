package gosym

import (
	"fmt"
	"go/types"
)

// Clock model.  time.Now() returns a wall-clock Time without monotonic reading:
// {wall: 0 (nsec 0), ext: seconds since year 1, loc: nil (UTC)}.  The first reading is a free
// value in [1e9, 1e9+2^31) unix seconds; every later reading on the same path is the previous one plus a
// free 0/1 seconds ("the clock advances by less than two seconds between two consecutive
// readings").  Harnesses that need larger time steps construct times explicitly.

const unixToInternal = int64((1969*365 + 1969/4 - 1969/100 + 1969/400) * 86400)

func init() {
	externals["time.Now"] = func(fr *frame, args []value) value {
		in := fr.i
		c := in.ctx
		var ext *Term
		if in.ex != nil && in.ex.Cfg.Params["verif.concrete_clock"] != 0 {
			// the property does not depend on time (only log lines read the clock): fixed instants 1 s apart
			in.clockN++
			return structure{uint64(0), int64(1_700_000_000 + unixToInternal + int64(in.clockN)), (*value)(nil)}
		}
		// ranges are structural (zero-extended narrow variables), not path-condition constraints: a
		// reading taken inside a speculatively merged arm must keep its range after the arm is merged
		if in.lastClock == nil {
			v := c.ZExt(c.Extract(in.freshVar("clock.unix", 64), 30, 0), 64) // [0, 2^31)
			ext = c.BV(OpBVAdd, v, c.Const(64, uint64(1_000_000_000+unixToInternal)))
		} else {
			step := c.ZExt(c.Extract(in.freshVar(fmt.Sprintf("clock.step%d", in.clockN), 64), 0, 0), 64) // 0 or 1
			ext = c.BV(OpBVAdd, in.lastClock, step)
		}
		in.clockN++
		in.lastClock = ext
		return structure{uint64(0), fromTerm(types.Typ[types.Int64], ext), (*value)(nil)}
	}
	externals["time.Since"] = nil
	delete(externals, "time.Since")
	externals["time.runtimeNano"] = func(fr *frame, args []value) value { return int64(0) }
	externals["time.runtimeIsBubbled"] = func(fr *frame, args []value) value { return false }
	externals["time.runtimeNow"] = func(fr *frame, args []value) value { return tuple{int64(0), int32(0), int64(0)} }
	externals["time.Sleep"] = func(fr *frame, args []value) value { return nil }
}
