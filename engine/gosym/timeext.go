package gosym

import (
	"fmt"
	"go/types"
)

// Clock model.  time.Now() returns a wall-clock Time without monotonic reading:
// {wall: 0 (nsec 0), ext: seconds since year 1, loc: nil (UTC)}.  The first reading is a free
// value in a sane unix range; every later reading on the same path is the previous one plus a
// free 0/1 seconds ("the clock advances by less than two seconds between two consecutive
// readings").  Harnesses that need larger time steps construct times explicitly.

const unixToInternal = int64((1969*365 + 1969/4 - 1969/100 + 1969/400) * 86400)

func init() {
	externals["time.Now"] = func(fr *frame, args []value) value {
		in := fr.i
		c := in.ctx
		var ext *Term
		if in.ex != nil && in.ex.Cfg.Params["verif.concrete_clock"] != 0 {
			// the property does not depend on time (only log lines read the clock): fixed instants 1 s apart
			in.clockN++
			return structure{uint64(0), int64(1_700_000_000 + unixToInternal + int64(in.clockN)), (*value)(nil)}
		}
		if in.lastClock == nil {
			v := in.freshVar("clock.unix", 64)
			lo := c.Cmp(OpSLe, c.Const(64, 1_000_000_000), v)
			hi := c.Cmp(OpSLe, v, c.Const(64, 4_000_000_000))
			in.pc = append(in.pc, lo, hi)
			ext = c.BV(OpBVAdd, v, c.Const(64, uint64(unixToInternal)))
		} else {
			step := in.freshVar(fmt.Sprintf("clock.step%d", in.clockN), 64)
			in.pc = append(in.pc, c.Cmp(OpULe, step, c.Const(64, 1)))
			ext = c.BV(OpBVAdd, in.lastClock, step)
		}
		in.clockN++
		in.lastClock = ext
		return structure{uint64(0), fromTerm(types.Typ[types.Int64], ext), (*value)(nil)}
	}
	externals["time.Since"] = nil
	delete(externals, "time.Since")
	externals["time.runtimeNano"] = func(fr *frame, args []value) value { return int64(0) }
	externals["time.runtimeIsBubbled"] = func(fr *frame, args []value) value { return false }
	externals["time.runtimeNow"] = func(fr *frame, args []value) value { return tuple{int64(0), int32(0), int64(0)} }
	externals["time.Sleep"] = func(fr *frame, args []value) value { return nil }
}
