package gosym

import (
	"fmt"
	"go/types"
	"os"
	"sort"
	"strings"
	"sync"

	"golang.org/x/tools/go/packages"
	"golang.org/x/tools/go/ssa"
	"golang.org/x/tools/go/ssa/ssautil"
)

// Program is the loaded SSA program plus the shared stub tables.
type Program struct {
	Prog  *ssa.Program
	Sizes types.Sizes
	Pkgs  []*packages.Package
	SSA   []*ssa.Package

	stubPkgs  []string
	skipInit  map[string]bool
	externals map[string]externalFn

	mu     sync.Mutex
	taints map[string]string
	once   sync.Once
}

type LoadConfig struct {
	Dir      string
	Patterns []string
	Overlay  map[string][]byte
	Tags     []string
	Env      []string
}

func Load(cfg LoadConfig) (*Program, error) {
	pcfg := &packages.Config{
		Mode:    packages.LoadAllSyntax,
		Dir:     cfg.Dir,
		Overlay: cfg.Overlay,
		Env:     append(os.Environ(), cfg.Env...),
	}
	if len(cfg.Tags) > 0 {
		pcfg.BuildFlags = []string{"-tags=" + strings.Join(cfg.Tags, ",")}
	}
	pkgs, err := packages.Load(pcfg, cfg.Patterns...)
	if err != nil {
		return nil, err
	}
	var errs []string
	packages.Visit(pkgs, nil, func(p *packages.Package) {
		for _, e := range p.Errors {
			errs = append(errs, e.Error())
		}
	})
	if len(errs) > 0 {
		if len(errs) > 20 {
			errs = errs[:20]
		}
		return nil, fmt.Errorf("package load errors:\n%s", strings.Join(errs, "\n"))
	}
	prog, ssapkgs := ssautil.AllPackages(pkgs, ssa.InstantiateGenerics|ssa.SanityCheckFunctions*0)
	prog.Build()
	p := &Program{Prog: prog, Pkgs: pkgs, SSA: ssapkgs, Sizes: types.SizesFor("gc", "amd64"),
		skipInit: map[string]bool{}, externals: map[string]externalFn{}, taints: map[string]string{}}
	for k, v := range externals {
		p.externals[k] = v
	}
	p.stubPkgs = append(p.stubPkgs, defaultStubPkgs...)
	for _, s := range defaultSkipInit {
		p.skipInit[s] = true
	}
	return p, nil
}

func (p *Program) isStubPkg(path string) bool {
	for _, s := range p.stubPkgs {
		if path == s || (strings.HasSuffix(s, "/") && strings.HasPrefix(path, s)) || strings.HasPrefix(path, s+"/") {
			return true
		}
	}
	return false
}

func (p *Program) lookupExternal(fn *ssa.Function, name string) externalFn {
	if ext := p.externals[name]; ext != nil {
		return ext
	}

	if strings.HasPrefix(name, "unique.Make[") {
		return uniqueMake
	}
	if strings.HasPrefix(name, "(unique.Handle[") && strings.HasSuffix(name, ".Value") {
		return uniqueValue
	}
	if n := fn.Name(); strings.HasPrefix(n, "verif") {
		if ext := intrinsics[n]; ext != nil {
			return ext
		}
	}
	return nil
}

func (p *Program) noteTaint(pkg, msg string) {
	p.mu.Lock()
	if _, ok := p.taints[pkg]; !ok {
		p.taints[pkg] = msg
	}
	p.mu.Unlock()
}

func (p *Program) Taints() []string {
	p.mu.Lock()
	defer p.mu.Unlock()
	var out []string
	for k, v := range p.taints {
		out = append(out, k+": "+v)
	}
	sort.Strings(out)
	return out
}

// FindFunc finds a package-level function by package path and name.
func (p *Program) FindFunc(pkgPath, name string) *ssa.Function {
	for _, sp := range p.Prog.AllPackages() {
		if sp.Pkg.Path() == pkgPath {
			return sp.Func(name)
		}
	}
	return nil
}

// symGuard marks an external that only applies to symbolic first arguments.
func symGuard(f externalFn) externalFn { return externalFn(f) }
