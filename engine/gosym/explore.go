package gosym

import (
	"fmt"
	"go/token"
	"go/types"
	"os"
	"runtime"
	"sort"
	"strings"
	"sync"
	"time"

	"golang.org/x/tools/go/ssa"
)

const (
	forcedBase = int64(1) << 40
	entMerged  = int64(-1)
	entTooMany = int64(-2)
)

type Config struct {
	Harness        string
	Workers        int
	QueryTimeoutMs int
	StepLimit      int64
	MaxPaths       int
	PermuteRanges  int
	Merge          bool
	Solver         string
	Trace          bool
	MaxViolations  int
	Deadline       time.Time
	Params         map[string]int64 // harness parameters (verifParam)
	SampleModels   int              // number of ok paths for which a model + observations are produced
}

type PathResult struct {
	Log       []int64
	Kind      string // ok | violation | panic | infeasible | inconclusive
	Msg       string
	Site      string
	Model     map[string]uint64
	Vars      []varRec
	Sites     map[string]int // assertion sites reached on this path
	Steps     int64
	Decisions int
	PCLen     int
	Sample    string
	Observes  []string
}

type Explorer struct {
	Cfg  Config
	prog *Program
	fn   *ssa.Function

	mu      sync.Mutex
	cond    *sync.Cond
	work    []workItem
	active  int
	stop    bool
	Results []*PathResult

	// aggregated stats
	Paths, Decisions                       int
	Queries, NSat, NUnsat, NUnknown, NErrs int
	ErrorSample string
	SolverSec                              float64
	FnInstr                                map[string]int64
	StubHit                                map[string]int
	Sites                                  map[string]int
	Kinds                                  map[string]int
	Merges, MergeFails                     int
	FailWhy                                map[string]int
	Truncated                              bool
	sampled                                int
}

func NewExplorer(p *Program, fn *ssa.Function, cfg Config) *Explorer {
	if cfg.Workers <= 0 {
		cfg.Workers = runtime.NumCPU()
	}
	if cfg.QueryTimeoutMs <= 0 {
		cfg.QueryTimeoutMs = 20000
	}
	if cfg.StepLimit <= 0 {
		cfg.StepLimit = 20_000_000
	}
	if cfg.Solver == "" {
		cfg.Solver = "z3-new"
	}
	if cfg.MaxViolations <= 0 {
		cfg.MaxViolations = 3
	}
	e := &Explorer{Cfg: cfg, prog: p, fn: fn, FnInstr: map[string]int64{}, StubHit: map[string]int{},
		Sites: map[string]int{}, Kinds: map[string]int{}}
	e.cond = sync.NewCond(&e.mu)
	return e
}

func (e *Explorer) wantSample() bool {
	e.mu.Lock()
	defer e.mu.Unlock()
	if e.sampled >= e.Cfg.SampleModels {
		return false
	}
	e.sampled++
	return true
}

type workItem struct {
	log  []int64
	whys []string
}

func (in *interpreter) pushWork(prefix []int64) {
	// whys recorded so far correspond 1:1 to log entries made through decide/decideValue/symbolicIf
	in.ex.push(workItem{prefix, append([]string(nil), in.whys...)})
}

func (e *Explorer) push(prefix workItem) {
	e.mu.Lock()
	e.work = append(e.work, prefix)
	e.mu.Unlock()
	e.cond.Signal()
}

func (e *Explorer) pop() (workItem, bool) {
	e.mu.Lock()
	defer e.mu.Unlock()
	for {
		if e.stop {
			return workItem{}, false
		}
		if n := len(e.work); n > 0 {
			p := e.work[n-1]
			e.work = e.work[:n-1]
			e.active++
			return p, true
		}
		if e.active == 0 {
			e.cond.Broadcast()
			return workItem{}, false
		}
		e.cond.Wait()
	}
}

func (e *Explorer) done(r *PathResult) {
	if os.Getenv("GOSYM_PROGRESS") != "" {
		msg := r.Msg
		if len(msg) > 600 {
			msg = msg[:600]
		}
		fmt.Fprintf(os.Stderr, "path kind=%s steps=%d decisions=%d pc=%d site=%s %s\n", r.Kind, r.Steps, r.Decisions, r.PCLen, r.Site, msg)
	}
	e.mu.Lock()
	e.active--
	e.Results = append(e.Results, r)
	e.Paths++
	e.Kinds[r.Kind]++
	e.Decisions += r.Decisions
	for s, n := range r.Sites {
		e.Sites[s] += n
	}
	nviol := e.Kinds["violation"] + e.Kinds["panic"]
	if nviol >= e.Cfg.MaxViolations {
		e.stop = true
	}
	if e.Cfg.MaxPaths > 0 && e.Paths >= e.Cfg.MaxPaths && (len(e.work) > 0 || e.active > 0) {
		e.stop = true
		e.Truncated = true
	}
	if !e.Cfg.Deadline.IsZero() && time.Now().After(e.Cfg.Deadline) && (len(e.work) > 0 || e.active > 0) {
		e.stop = true
		e.Truncated = true
	}
	e.mu.Unlock()
	e.cond.Broadcast()
}

// Run explores all paths of the harness.
func (e *Explorer) Run() error {
	e.work = []workItem{{}}
	var wg sync.WaitGroup
	errs := make(chan error, e.Cfg.Workers)
	for w := 0; w < e.Cfg.Workers; w++ {
		wg.Add(1)
		go func(w int) {
			defer wg.Done()
			in := newInterpreter(e.prog)
			in.ex = e
			in.stepLimit = e.Cfg.StepLimit
			if e.Cfg.Trace {
				in.mode |= EnableTracing
			}
			sol, err := NewSolver(e.Cfg.Solver, in.ctx, e.Cfg.QueryTimeoutMs)
			if err != nil {
				errs <- err
				return
			}
			in.solver = sol
			defer sol.Close()
			for {
				prefix, ok := e.pop()
				if !ok {
					break
				}
				in.expectWhys = prefix.whys
				r := in.runPath(e.fn, prefix.log)
				e.done(r)
			}
			e.mu.Lock()
			e.Queries += sol.Queries
			e.NSat += sol.NSat
			e.NUnsat += sol.NUnsat
			e.NUnknown += sol.NUnknown
			e.NErrs += sol.Errors
			if e.ErrorSample == "" {
				e.ErrorSample = sol.ErrorSample
			}
			e.SolverSec += sol.SolverSec
			for f, n := range in.fnInstr {
				e.FnInstr[f.String()] += n
			}
			for s, n := range in.stubHit {
				e.StubHit[s] += n
			}
			if m, ok := in.tmp["merges"].(int); ok {
				e.Merges += m
			}
			if m, ok := in.tmp["mergefails"].(int); ok {
				e.MergeFails += m
			}
			if m, ok := in.tmp["failwhy"].(map[string]int); ok {
				if e.FailWhy == nil {
					e.FailWhy = map[string]int{}
				}
				for k, v := range m {
					e.FailWhy[k] += v
				}
			}
			e.mu.Unlock()
		}(w)
	}
	wg.Wait()
	select {
	case err := <-errs:
		return err
	default:
	}
	return nil
}

func (in *interpreter) runPath(fn *ssa.Function, prefix []int64) (res *PathResult) {
	in.pc = in.pc[:0]
	in.log = append(in.log[:0], prefix...)
	in.pos = 0
	in.prefixN = len(prefix)
	in.steps = 0
	in.varCount = map[string]int{}
	in.vars = nil
	in.goq = nil
	in.journal = in.journal[:0]
	in.journaling = true
	in.inMerge = 0
	in.mergeDepth = 0
	in.clockN = 0
	in.lastClock = nil
	in.ufcache = map[string]value{}
	in.race = nil
	in.pathNo++
	in.whys = in.whys[:0]
	in.model = nil
	if in.tmp == nil {
		in.tmp = map[string]any{}
	}
	res = &PathResult{Sites: map[string]int{}}
	in.curPath = res
	defer func() {
		in.journaling = false
		in.rollback(0)
		res.Log = append([]int64(nil), in.log...)
		res.Steps = in.steps
		res.Decisions = len(in.log)
		res.PCLen = len(in.pc)
		res.Vars = in.vars
		if len(in.pc) > 0 {
			var sb strings.Builder
			for k, t := range in.pc {
				if k >= 6 {
					sb.WriteString(" ∧ …")
					break
				}
				if k > 0 {
					sb.WriteString(" ∧ ")
				}
				s := t.String()
				if len(s) > 160 {
					s = s[:160] + "…"
				}
				sb.WriteString(s)
			}
			res.Sample = sb.String()
		}
	}()
	defer func() {
		p := recover()
		if p == nil {
			return
		}
		switch p := p.(type) {
		case pathEnd:
			res.Kind, res.Msg = p.kind, p.msg
			if p.kind == "done" {
				res.Kind = "ok"
			}
		case mergeAbort:
			res.Kind, res.Msg = "inconclusive", "mergeAbort escaped: "+p.why
		case targetPanic:
			res.Kind, res.Site, res.Msg = "panic", "panic", "uncaught panic: "+in.panicString(p.v)
			in.fillModel(res)
		case runtime.Error:
			if _, mine := p.(runtimeError); mine || !strings.Contains(p.Error(), "interface conversion") {
				res.Kind, res.Site, res.Msg = "panic", "panic", "uncaught runtime panic: "+p.Error()
				if !mine && strings.Contains(p.Error(), "gosym.") {
					// a host-level error on the engine's own value types is an engine limitation, not a
					// panic of the code under test
					res.Kind, res.Site = "inconclusive", ""
					res.Msg = "engine limitation: " + p.Error()
					if in.lastFn != nil {
						res.Msg += " (last entered: " + in.lastFn.String() + ")"
					}
					break
				}
				in.fillModel(res)
			} else {
				res.Kind, res.Msg = "inconclusive", "interp: "+p.Error()
			}
		case unsupported:
			res.Kind, res.Msg = "inconclusive", "unsupported: "+string(p)
		default:
			buf := make([]byte, 2048)
			buf = buf[:runtime.Stack(buf, false)]
			res.Kind, res.Msg = "inconclusive", fmt.Sprintf("interp panic: %v\n%s", p, buf)
		}
	}()
	if pkg := fnPkg(fn); pkg != nil {
		in.ensureInit(pkg)
	}
	in.obs = nil
	call(in, nil, token.NoPos, fn, nil)
	in.runGoroutines()
	res.Kind = "ok"
	if in.ex != nil && in.ex.wantSample() {
		r, m := in.solver.Check(in.pc, nil, true)
		if r == Sat {
			res.Model = m
			memo := map[int]uint64{}
			for _, o := range in.obs {
				res.Observes = append(res.Observes, o.tag+"="+in.renderObs(o.v, m, memo, nil))
			}
		}
	}
	return res
}

func (in *interpreter) panicString(v value) string {
	if it, ok := v.(iface); ok {
		if it.t != nil {
			// error or Stringer: try calling Error()
			if s, ok := in.tryErrorString(it); ok {
				return s
			}
		}
		return toString(it.v)
	}
	return toString(v)
}

func (in *interpreter) tryErrorString(it iface) (s string, ok bool) {
	defer func() {
		if recover() != nil {
			ok = false
		}
	}()
	for _, name := range []string{"Error", "String"} {
		ms := in.prog.MethodSets.MethodSet(it.t)
		for k := 0; k < ms.Len(); k++ {
			sel := ms.At(k)
			if sel.Obj().Name() == name {
				fn := in.prog.MethodValue(sel)
				if fn == nil {
					continue
				}
				r := call(in, nil, token.NoPos, fn, []value{it.v})
				switch r := r.(type) {
				case string:
					return r, true
				case symstr:
					return r.String(), true
				}
			}
		}
	}
	return "", false
}

func (in *interpreter) fillModel(res *PathResult) {
	r, m := in.solver.Check(in.pc, nil, true)
	if r == Sat {
		res.Model = m
	} else {
		res.Model = map[string]uint64{}
		if r == Unknown {
			res.Msg += " (model query unknown)"
		}
	}
}

// feasible asks whether pc ∧ t is satisfiable; Unknown counts as feasible.
func (in *interpreter) feasible(t *Term) bool {
	if t.IsConst() {
		return t.K != 0
	}
	// model cache: a model satisfying pc ∧ t proves feasibility without a query
	if in.model != nil && os.Getenv("GOSYM_NOMODELCACHE") == "" {
		ok := true
		for _, p := range in.pc {
			if v, e := evalTerm(p, in.model, in.modelMemo); !e || v == 0 {
				ok = false
				break
			}
		}
		if ok {
			if v, e := evalTerm(t, in.model, in.modelMemo); e && v != 0 {
				in.modelHits++
				return true
			}
		}
	}
	r, m := in.solver.Check(in.pc, t, true)
	if r == Sat && m != nil {
		in.model = m
		in.modelMemo = map[int]uint64{}
	}
	return r != Unsat
}

// decide picks among mutually exclusive, exhaustive outcomes. Returns the outcome index;
// the outcome's condition is added to the path condition unless it was forced.
func (in *interpreter) noteWhy(why string) {
	k := len(in.whys)
	in.whys = append(in.whys, why)
	if k < len(in.expectWhys) && in.expectWhys[k] != why {
		panic(pathEnd{"inconclusive", fmt.Sprintf("replay divergence at decision %d: expected %q got %q", k, in.expectWhys[k], why)})
	}
}

func (in *interpreter) decide(conds []*Term, why string) int {
	in.noteWhy(why)
	if in.pos < len(in.log) {
		e := in.log[in.pos]
		in.pos++
		if e >= forcedBase {
			return int(e - forcedBase)
		}
		if e < 0 || int(e) >= len(conds) {
			panic(pathEnd{"inconclusive", fmt.Sprintf("replay divergence at decision %d (%s): entry %d of %d", in.pos-1, why, e, len(conds))})
		}
		in.pc = append(in.pc, conds[e])
		return int(e)
	}
	var feas []int
	for k, c := range conds {
		if k == len(conds)-1 && len(feas) == 0 {
			// last one must be feasible if the pc is (saves a query)
			if !c.IsConst() || c.K != 0 {
				feas = append(feas, k)
				break
			}
		}
		if in.feasible(c) {
			feas = append(feas, k)
		}
	}
	if len(feas) == 0 {
		panic(pathEnd{"infeasible", "no feasible outcome at " + why})
	}
	if len(feas) == 1 {
		in.log = append(in.log, forcedBase+int64(feas[0]))
		in.pos++
		return feas[0]
	}
	if in.inMerge > 0 {
		panic(mergeAbort{"decision in arm: " + why})
	}
	base := append([]int64(nil), in.log...)
	for _, k := range feas[1:] {
		in.pushWork(append(append([]int64(nil), base...), int64(k)))
	}
	in.log = append(in.log, int64(feas[0]))
	in.pos++
	in.pc = append(in.pc, conds[feas[0]])
	return feas[0]
}

func (in *interpreter) decideBool(c *Term, why string) bool {
	if c.IsConst() {
		return c.K != 0
	}
	return in.decide([]*Term{c, in.ctx.Not(c)}, why) == 0
}

// choose forks n ways without any condition (used for map order permutations).
func (in *interpreter) choose(n int, why string) int {
	conds := make([]*Term, n)
	for k := range conds {
		conds[k] = in.ctx.True
	}
	if in.pos < len(in.log) {
		e := in.log[in.pos]
		in.pos++
		return int(e)
	}
	if in.inMerge > 0 {
		panic(mergeAbort{"choose in arm"})
	}
	base := append([]int64(nil), in.log...)
	for k := 1; k < n; k++ {
		in.pushWork(append(append([]int64(nil), base...), int64(k)))
	}
	in.log = append(in.log, 0)
	in.pos++
	return 0
}

// decideValue enumerates the feasible values of t (64-bit term) and forks on them.
func (in *interpreter) decideValue(t *Term, why string) uint64 {
	v, _ := in.decideValueMax(t, why, 300, true)
	return v
}

// decideValueMax is decideValue with a cap on the number of feasible values; with strict=false
// it returns ok=false instead of ending the path when the cap is exceeded.
func (in *interpreter) decideValueMax(t *Term, why string, maxVals int, strict bool) (uint64, bool) {
	if t.IsConst() {
		return t.K, true
	}
	in.noteWhy("val:" + why)
	c := in.ctx
	if in.pos < len(in.log) {
		e := in.log[in.pos]
		in.pos++
		if e == entTooMany {
			return 0, false
		}
		if e >= forcedBase {
			return uint64(e - forcedBase), true
		}
		v := uint64(e)
		in.pc = append(in.pc, c.Eq(t, c.Const(t.W, v)))
		return v, true
	}
	var vals []uint64
	excl := c.True
	name := fmt.Sprintf("cv!%d", t.ID)
	cv := c.Var(name, t.W)
	bind := c.Eq(cv, t)
	for len(vals) <= maxVals {
		r, m := in.solver.Check(in.pc, c.And(bind, excl), true)
		if r == Unsat {
			break
		}
		if r == Unknown {
			panic(pathEnd{"inconclusive", "unknown while enumerating values at " + why})
		}
		v := m[name]
		vals = append(vals, v)
		excl = c.And(excl, c.Not(c.Eq(t, c.Const(t.W, v))))
	}
	if len(vals) == 0 {
		n := len(in.whys)
		if n > 8 {
			n = 8
		}
		panic(pathEnd{"infeasible", fmt.Sprintf("no feasible value at %s; last decisions %v log %v", why, in.whys[len(in.whys)-n:], in.log[max(0, len(in.log)-8):])})
	}
	if len(vals) > maxVals {
		if !strict {
			in.log = append(in.log, entTooMany)
			in.pos++
			return 0, false
		}
		panic(pathEnd{"inconclusive", fmt.Sprintf("more than %d feasible values at %s", maxVals, why)})
	}
	sort.Slice(vals, func(a, b int) bool { return vals[a] < vals[b] })
	if len(vals) == 1 {
		if vals[0] < uint64(forcedBase) {
			in.log = append(in.log, forcedBase+int64(vals[0]))
			in.pos++
			return vals[0], true
		}
	}
	if in.inMerge > 0 {
		panic(mergeAbort{"value decision in arm: " + why})
	}
	base := append([]int64(nil), in.log...)
	for _, v := range vals[1:] {
		in.pushWork(append(append([]int64(nil), base...), int64(v)))
	}
	in.log = append(in.log, int64(vals[0]))
	in.pos++
	in.pc = append(in.pc, c.Eq(t, c.Const(t.W, vals[0])))
	return vals[0], true
}

// symbolicIf handles an If on a symbolic condition.
func (fr *frame) symbolicIf(instr *ssa.If, c *Term) (bool, continuation) {
	in := fr.i
	in.noteWhy("if:" + fr.fn.Name())
	if in.pos < len(in.log) {
		e := in.log[in.pos]
		in.pos++
		switch {
		case e == entMerged:
			cont, ok := fr.tryMerge(instr, c)
			if !ok {
				panic(pathEnd{"inconclusive", "replay divergence: merge failed on replay in " + fr.fn.String()})
			}
			return false, cont
		case e >= forcedBase:
			return e-forcedBase == 0, kNext
		default:
			if e == 0 {
				in.pc = append(in.pc, c)
			} else {
				in.pc = append(in.pc, in.ctx.Not(c))
			}
			return e == 0, kNext
		}
	}
	// Speculative merge first: executing a (possibly infeasible) arm is sound, its values
	// simply sit behind an unreachable guard; this avoids two feasibility queries per branch.
	if in.ex.Cfg.Merge && in.mergeWorthTrying(instr) {
		mark := len(in.log)
		wmark := len(in.whys)
		in.log = append(in.log, entMerged)
		in.pos++
		if cont, ok := fr.tryMerge(instr, c); ok {
			in.mergeSite(instr)[0]++
			return false, cont
		}
		in.mergeSite(instr)[1]++
		in.log = in.log[:mark]
		in.pos = mark
		in.whys = in.whys[:wmark]
	}
	nc := in.ctx.Not(c)
	f0 := in.feasible(c)
	f1 := true
	if f0 {
		f1 = in.feasible(nc)
	}
	switch {
	case f0 && !f1:
		in.log = append(in.log, forcedBase+0)
		in.pos++
		return true, kNext
	case !f0:
		in.log = append(in.log, forcedBase+1)
		in.pos++
		return false, kNext
	}
	if in.inMerge > 0 {
		panic(mergeAbort{"branch in arm"})
	}
	base := append([]int64(nil), in.log...)
	in.pushWork(append(base, 1))
	in.log = append(in.log, 0)
	in.pos++
	in.pc = append(in.pc, c)
	return true, kNext
}

// ---- reporting helpers ----

func (e *Explorer) Summary(w *os.File) {
	fmt.Fprintf(w, "paths=%d decisions=%d kinds=%v queries=%d sat=%d unsat=%d unknown=%d errors=%d solver=%.1fs merges=%d mergefails=%d\n",
		e.Paths, e.Decisions, e.Kinds, e.Queries, e.NSat, e.NUnsat, e.NUnknown, e.NErrs, e.SolverSec, e.Merges, e.MergeFails)
}

var _ = types.Typ

// Adaptive merging: a branch site whose merge attempts keep failing (parser-like code whose
// arms produce structurally different results) is forked directly.  Only fresh decisions are
// affected; replays follow the decision log.
func (in *interpreter) mergeSite(instr *ssa.If) *[2]int {
	if in.mergeSites == nil {
		in.mergeSites = map[*ssa.If]*[2]int{}
	}
	st := in.mergeSites[instr]
	if st == nil {
		st = &[2]int{}
		in.mergeSites[instr] = st
	}
	return st
}

func (in *interpreter) mergeWorthTrying(instr *ssa.If) bool {
	st := in.mergeSite(instr)
	return st[1] < 4 || st[0]*3 >= st[1]
}
