package gosym

import (
	"fmt"
	"go/types"
	"sort"
	"strings"
)

// Opt-in shared-access monitor for structured fork/join concurrency (go f() ... wg.Wait()).
// Goroutines are executed one after another at the join; every heap slot read or written by a
// goroutine (and by the spawning goroutine between the first `go` and the join) is logged with
// the set of mutexes held.  Two different goroutines touching the same slot, at least one
// writing, with no common mutex = data race.  Channel synchronisation is not modelled, so the
// monitor is enabled only by harnesses for code that joins through a WaitGroup.

type raceAccess struct {
	g     int
	write bool
	locks string
	where string
	epoch int // spawner accesses: number of goroutines already started (a later `go` orders the access before that goroutine)
}

type raceMon struct {
	on    bool
	curG  int // 0 = spawner
	nextG int
	acc   map[*value][]raceAccess
	held  map[*value]bool
	found []string
}

func (in *interpreter) raceNote(addr *value, write bool, fr *frame) {
	m := in.race
	if m == nil || !m.on || (m.nextG == 0) {
		return
	}
	var ls []string
	for l := range m.held {
		ls = append(ls, fmt.Sprintf("%p", l))
	}
	sort.Strings(ls)
	where := ""
	if fr != nil {
		where = fr.fn.String()
	}
	a := raceAccess{m.curG, write, strings.Join(ls, ","), where, m.nextG}
	for _, o := range m.acc[addr] {
		if o.g == a.g || (!o.write && !a.write) {
			continue
		}
		// the go statement happens-before the goroutine's start: what the spawner did before
		// starting goroutine k cannot race with k
		if (o.g == 0 && a.g > o.epoch) || (a.g == 0 && o.g > a.epoch) {
			continue
		}
		common := false
		for _, l := range ls {
			if l != "" && strings.Contains(","+o.locks+",", ","+l+",") {
				common = true
			}
		}
		if !common {
			m.found = append(m.found, fmt.Sprintf("slot accessed by goroutine %d in %s (write=%v) and goroutine %d in %s (write=%v) with no common lock", o.g, o.where, o.write, a.g, a.where, a.write))
		}
	}
	if len(m.acc[addr]) < 8 {
		m.acc[addr] = append(m.acc[addr], a)
	}
}


func (in *interpreter) raceNoteLoad(T types.Type, addr *value) {
	switch t := T.Underlying().(type) {
	case *types.Struct:
		v := (*addr).(structure)
		for i := range v {
			in.raceNoteLoad(t.Field(i).Type(), &v[i])
		}
	case *types.Array:
		v := (*addr).(array)
		for i := range v {
			in.raceNoteLoad(t.Elem(), &v[i])
		}
	default:
		in.raceNote(addr, false, nil)
	}
}

// raceJoin is called when all goroutines of a fork/join group have run.
func (in *interpreter) raceJoin() {
	m := in.race
	if m == nil || !m.on {
		return
	}
	if len(m.found) > 0 {
		in.curPath.Site = "race"
		panic(pathEnd{"violation", "data race: " + m.found[0]})
	}
	m.acc = map[*value][]raceAccess{}
	m.nextG = 0
}
