package gosym

import (
	"bytes"
	"crypto/sha3"
	"encoding/binary"
	"testing"
)

func sha3_224(msg []byte) []byte {
	const rate = 144
	var st [25]uint64
	buf := append(append([]byte{}, msg...), 0x06)
	for len(buf)%rate != 0 {
		buf = append(buf, 0)
	}
	buf[len(buf)-1] |= 0x80
	for off := 0; off < len(buf); off += rate {
		for i := 0; i < rate/8; i++ {
			st[i] ^= binary.LittleEndian.Uint64(buf[off+8*i:])
		}
		keccakF1600Native(&st)
	}
	out := make([]byte, 200)
	for i := range st {
		binary.LittleEndian.PutUint64(out[8*i:], st[i])
	}
	return out[:28]
}

func TestKeccakNative(t *testing.T) {
	for _, m := range []string{"", "abc", "tiera.p0,tiera.p1", string(bytes.Repeat([]byte("x"), 300))} {
		want := sha3.Sum224([]byte(m))
		if got := sha3_224([]byte(m)); !bytes.Equal(got, want[:]) {
			t.Fatalf("sha3-224(%q): got %x want %x", m, got, want)
		}
	}
}
