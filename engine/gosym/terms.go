package gosym

// Hash-consed SMT term DAG with eager constant folding.
// Sort is implied by width: W==0 => Bool, W>0 => (_ BitVec W).
// FP64 terms have W==64 and FP==true only for OpFVar/OpFConst; FP compare ops yield Bool.

import (
	"fmt"
	"math"
	"math/bits"
	"strings"
)

type Op uint8

const (
	OpConst Op = iota // K = value (W bits) ; bool: K=0/1
	OpVar             // Name
	OpNot             // bool
	OpAnd             // bool n-ary (binary here)
	OpOr
	OpIte // args: c, a, b (bool or bv)
	OpEq  // bool result, args same sort
	OpBVAdd
	OpBVSub
	OpBVMul
	OpBVUDiv
	OpBVURem
	OpBVSDiv
	OpBVSRem
	OpBVAnd
	OpBVOr
	OpBVXor
	OpBVShl
	OpBVLShr
	OpBVAShr
	OpBVNot
	OpBVNeg
	OpULt
	OpULe
	OpSLt
	OpSLe
	OpConcat  // args hi, lo
	OpExtract // K = hi<<8|lo
	OpZExt    // to W
	OpSExt    // to W
	OpFLt     // fp compare on 64-bit patterns (args are bv64 interpreted as IEEE double)
	OpFLe
	OpFEq
	OpFIsNaN
	OpUF // uninterpreted function: Name, args, result W
)

var opNames = map[Op]string{
	OpNot: "not", OpAnd: "and", OpOr: "or", OpIte: "ite", OpEq: "=",
	OpBVAdd: "bvadd", OpBVSub: "bvsub", OpBVMul: "bvmul", OpBVUDiv: "bvudiv", OpBVURem: "bvurem",
	OpBVSDiv: "bvsdiv", OpBVSRem: "bvsrem", OpBVAnd: "bvand", OpBVOr: "bvor", OpBVXor: "bvxor",
	OpBVShl: "bvshl", OpBVLShr: "bvlshr", OpBVAShr: "bvashr", OpBVNot: "bvnot", OpBVNeg: "bvneg",
	OpULt: "bvult", OpULe: "bvule", OpSLt: "bvslt", OpSLe: "bvsle", OpConcat: "concat",
}

type Term struct {
	Op   Op
	W    uint8 // 0 = Bool
	K    uint64
	Name string
	Args []*Term
	ID   int
	NonBV bool // contains UF or FP operators (outside QF_BV)
}

func (t *Term) IsConst() bool { return t.Op == OpConst }
func (t *Term) IsBool() bool  { return t.W == 0 }

// TermCtx owns a hash-consing table.  Not safe for concurrent use (one per worker).
type TermCtx struct {
	tab    map[string]*Term
	terms  []*Term
	vars   []*Term
	ufs    map[string]string // name -> declaration
	ufList []string
	True   *Term
	False  *Term
	srMemo map[int]srng
}

func NewTermCtx() *TermCtx {
	c := &TermCtx{tab: map[string]*Term{}, ufs: map[string]string{}}
	c.True = c.mk(OpConst, 0, 1, "", nil)
	c.False = c.mk(OpConst, 0, 0, "", nil)
	return c
}

func (c *TermCtx) mk(op Op, w uint8, k uint64, name string, args []*Term) *Term {
	var sb strings.Builder
	fmt.Fprintf(&sb, "%d|%d|%d|%s", op, w, k, name)
	for _, a := range args {
		fmt.Fprintf(&sb, "|%d", a.ID)
	}
	key := sb.String()
	if t, ok := c.tab[key]; ok {
		return t
	}
	t := &Term{Op: op, W: w, K: k, Name: name, Args: args, ID: len(c.terms)}
	switch op {
	case OpUF, OpFLt, OpFLe, OpFEq, OpFIsNaN:
		t.NonBV = true
	}
	for _, a := range args {
		if a.NonBV {
			t.NonBV = true
		}
	}
	c.terms = append(c.terms, t)
	c.tab[key] = t
	if op == OpVar {
		c.vars = append(c.vars, t)
	}
	return t
}

func mask(w uint8) uint64 {
	if w >= 64 {
		return ^uint64(0)
	}
	return (uint64(1) << w) - 1
}

func signExt(k uint64, w uint8) int64 {
	if w >= 64 {
		return int64(k)
	}
	sh := 64 - uint(w)
	return int64(k<<sh) >> sh
}

func (c *TermCtx) Const(w uint8, k uint64) *Term {
	if w == 0 {
		if k != 0 {
			return c.True
		}
		return c.False
	}
	return c.mk(OpConst, w, k&mask(w), "", nil)
}

func (c *TermCtx) Bool(b bool) *Term {
	if b {
		return c.True
	}
	return c.False
}

func (c *TermCtx) Var(name string, w uint8) *Term {
	return c.mk(OpVar, w, 0, name, nil)
}

func (c *TermCtx) Not(a *Term) *Term {
	if a.W != 0 {
		panic("Not on non-bool")
	}
	if a.IsConst() {
		return c.Bool(a.K == 0)
	}
	if a.Op == OpNot {
		return a.Args[0]
	}
	return c.mk(OpNot, 0, 0, "", []*Term{a})
}

func (c *TermCtx) And(a, b *Term) *Term {
	if a.IsConst() {
		if a.K == 0 {
			return c.False
		}
		return b
	}
	if b.IsConst() {
		if b.K == 0 {
			return c.False
		}
		return a
	}
	if a == b {
		return a
	}
	if (a.Op == OpNot && a.Args[0] == b) || (b.Op == OpNot && b.Args[0] == a) {
		return c.False
	}
	if a.ID > b.ID {
		a, b = b, a
	}
	return c.mk(OpAnd, 0, 0, "", []*Term{a, b})
}

func (c *TermCtx) Or(a, b *Term) *Term {
	if a.IsConst() {
		if a.K != 0 {
			return c.True
		}
		return b
	}
	if b.IsConst() {
		if b.K != 0 {
			return c.True
		}
		return a
	}
	if a == b {
		return a
	}
	if (a.Op == OpNot && a.Args[0] == b) || (b.Op == OpNot && b.Args[0] == a) {
		return c.True
	}
	if a.ID > b.ID {
		a, b = b, a
	}
	return c.mk(OpOr, 0, 0, "", []*Term{a, b})
}

func (c *TermCtx) Implies(a, b *Term) *Term { return c.Or(c.Not(a), b) }

func (c *TermCtx) Ite(cond, a, b *Term) *Term {
	if cond.W != 0 {
		panic("Ite cond not bool")
	}
	if a.W != b.W {
		panic(fmt.Sprintf("Ite width mismatch %d %d", a.W, b.W))
	}
	if cond.IsConst() {
		if cond.K != 0 {
			return a
		}
		return b
	}
	if a == b {
		return a
	}
	if a.W == 0 {
		if a.IsConst() && b.IsConst() {
			if a.K != 0 { // ite(c, true, false)
				return cond
			}
			return c.Not(cond)
		}
		if a.IsConst() {
			if a.K != 0 {
				return c.Or(cond, b)
			}
			return c.And(c.Not(cond), b)
		}
		if b.IsConst() {
			if b.K != 0 {
				return c.Or(c.Not(cond), a)
			}
			return c.And(cond, a)
		}
	}
	if cond.Op == OpNot {
		return c.Ite(cond.Args[0], b, a)
	}
	return c.mk(OpIte, a.W, 0, "", []*Term{cond, a, b})
}

func (c *TermCtx) Eq(a, b *Term) *Term {
	if a.W != b.W {
		panic(fmt.Sprintf("Eq width mismatch %d %d", a.W, b.W))
	}
	if a == b {
		return c.True
	}
	if a.IsConst() && b.IsConst() {
		return c.Bool(a.K == b.K)
	}
	if a.W == 0 {
		if a.IsConst() {
			if a.K != 0 {
				return b
			}
			return c.Not(b)
		}
		if b.IsConst() {
			if b.K != 0 {
				return a
			}
			return c.Not(a)
		}
	}
	// eq(ite(c,k1,k2), k) with constants
	if b.IsConst() && a.Op == OpIte && a.Args[1].IsConst() && a.Args[2].IsConst() {
		return c.Ite(a.Args[0], c.Bool(a.Args[1].K == b.K), c.Bool(a.Args[2].K == b.K))
	}
	if a.IsConst() && b.Op == OpIte && b.Args[1].IsConst() && b.Args[2].IsConst() {
		return c.Ite(b.Args[0], c.Bool(b.Args[1].K == a.K), c.Bool(b.Args[2].K == a.K))
	}
	// eq(zext(x), const)
	if b.IsConst() && a.Op == OpZExt {
		x := a.Args[0]
		if b.K>>x.W != 0 {
			return c.False
		}
		return c.Eq(x, c.Const(x.W, b.K))
	}
	if a.IsConst() && b.Op == OpZExt {
		return c.Eq(b, a)
	}
	if a.ID > b.ID {
		a, b = b, a
	}
	return c.mk(OpEq, 0, 0, "", []*Term{a, b})
}

func evalBin(op Op, w uint8, x, y uint64) (uint64, bool) {
	m := mask(w)
	switch op {
	case OpBVAdd:
		return (x + y) & m, true
	case OpBVSub:
		return (x - y) & m, true
	case OpBVMul:
		return (x * y) & m, true
	case OpBVUDiv:
		if y == 0 {
			return m, true
		}
		return x / y, true
	case OpBVURem:
		if y == 0 {
			return x, true
		}
		return x % y, true
	case OpBVSDiv:
		sx, sy := signExt(x, w), signExt(y, w)
		if sy == 0 {
			if sx < 0 {
				return 1, true
			}
			return m, true
		}
		if sy == -1 {
			return uint64(-sx) & m, true
		}
		return uint64(sx/sy) & m, true
	case OpBVSRem:
		sx, sy := signExt(x, w), signExt(y, w)
		if sy == 0 {
			return x, true
		}
		if sy == -1 {
			return 0, true
		}
		return uint64(sx%sy) & m, true
	case OpBVAnd:
		return x & y, true
	case OpBVOr:
		return x | y, true
	case OpBVXor:
		return x ^ y, true
	case OpBVShl:
		if y >= uint64(w) {
			return 0, true
		}
		return (x << y) & m, true
	case OpBVLShr:
		if y >= uint64(w) {
			return 0, true
		}
		return x >> y, true
	case OpBVAShr:
		sx := signExt(x, w)
		if y >= uint64(w) {
			y = uint64(w) - 1
		}
		return uint64(sx>>y) & m, true
	}
	return 0, false
}

func (c *TermCtx) BV(op Op, a, b *Term) *Term {
	if a.W != b.W || a.W == 0 {
		panic(fmt.Sprintf("BV op %v width mismatch %d %d", opNames[op], a.W, b.W))
	}
	w := a.W
	if a.IsConst() && b.IsConst() {
		if r, ok := evalBin(op, w, a.K, b.K); ok {
			return c.Const(w, r)
		}
	}
	m := mask(w)
	switch op {
	case OpBVAdd:
		if a.IsConst() && a.K == 0 {
			return b
		}
		if b.IsConst() && b.K == 0 {
			return a
		}
		// (x + k1) + k2
		if b.IsConst() && a.Op == OpBVAdd && a.Args[1].IsConst() {
			return c.BV(OpBVAdd, a.Args[0], c.Const(w, a.Args[1].K+b.K))
		}
		if a.IsConst() { // constants to the right
			a, b = b, a
		}
	case OpBVSub:
		if b.IsConst() && b.K == 0 {
			return a
		}
		if a == b {
			return c.Const(w, 0)
		}
		if r := c.cancelSub(a, b, 6); r != nil {
			return r
		}
		if b.IsConst() {
			return c.BV(OpBVAdd, a, c.Const(w, -b.K))
		}
	case OpBVMul:
		if a.IsConst() {
			a, b = b, a
		}
		if b.IsConst() {
			if b.K == 0 {
				return b
			}
			if b.K == 1 {
				return a
			}
			if bits.OnesCount64(b.K) == 1 {
				return c.BV(OpBVShl, a, c.Const(w, uint64(bits.TrailingZeros64(b.K))))
			}
		}
	case OpBVAnd:
		if a.IsConst() {
			a, b = b, a
		}
		if b.IsConst() {
			if b.K == 0 {
				return b
			}
			if b.K == m {
				return a
			}
			// and(zext(x), k) where k covers x's bits
			if a.Op == OpZExt && b.K&mask(a.Args[0].W) == mask(a.Args[0].W) {
				return a
			}
			if a.Op == OpBVAnd && a.Args[1].IsConst() {
				return c.BV(OpBVAnd, a.Args[0], c.Const(w, a.Args[1].K&b.K))
			}
		}
		if a == b {
			return a
		}
	case OpBVOr:
		if a.IsConst() {
			a, b = b, a
		}
		if b.IsConst() {
			if b.K == 0 {
				return a
			}
			if b.K == m {
				return b
			}
		}
		if a == b {
			return a
		}
	case OpBVXor:
		if a.IsConst() {
			a, b = b, a
		}
		if b.IsConst() && b.K == 0 {
			return a
		}
		if a == b {
			return c.Const(w, 0)
		}
	case OpBVShl, OpBVLShr, OpBVAShr:
		if b.IsConst() && b.K == 0 {
			return a
		}
		if a.IsConst() && a.K == 0 {
			return a
		}
		if b.IsConst() && b.K >= uint64(w) && op != OpBVAShr {
			return c.Const(w, 0)
		}
		if op == OpBVLShr && b.IsConst() && a.Op == OpZExt && b.K >= uint64(a.Args[0].W) {
			return c.Const(w, 0)
		}
	case OpBVSDiv, OpBVSRem:
		if b.IsConst() && signExt(b.K, w) > 0 {
			k := signExt(b.K, w)
			// a == q*k as integers (no wrap-around anywhere in a): a/k = q, a%k = 0
			if q := c.exactMultiple(a, k); q != nil {
				if op == OpBVSDiv {
					return q
				}
				return c.Const(w, 0)
			}
			// (x*k)/k = x and (x*k)%k = 0 when the product cannot overflow
			if x, k2, ok := c.mulByConst(a); ok && k2 == k {
				if op == OpBVSDiv {
					return x
				}
				return c.Const(w, 0)
			}
			if lo, hi, ok := c.sRange(a); ok {
				if lo > -k && hi < k { // |a| < k: quotient 0, remainder a
					if op == OpBVSDiv {
						return c.Const(w, 0)
					}
					return a
				}
				if lo >= 0 && a.Op != OpBVUDiv && a.Op != OpBVURem {
					if op == OpBVSDiv {
						return c.BV(OpBVUDiv, a, b)
					}
					return c.BV(OpBVURem, a, b)
				}
			}
		}
		if b.IsConst() && b.K != 0 && knownMax(a) <= mask(w)>>1 && b.K <= mask(w)>>1 {
			// both non-negative: signed == unsigned
			if op == OpBVSDiv {
				return c.BV(OpBVUDiv, a, b)
			}
			return c.BV(OpBVURem, a, b)
		}
	case OpBVUDiv:
		if b.IsConst() && b.K == 1 {
			return a
		}
		if b.IsConst() && signExt(b.K, w) > 0 {
			if x, k2, ok := c.mulByConst(a); ok && k2 == signExt(b.K, w) {
				if lo, _, ok := c.sRange(x); ok && lo >= 0 {
					return x
				}
			}
		}
		if b.IsConst() && bits.OnesCount64(b.K) == 1 {
			return c.BV(OpBVLShr, a, c.Const(w, uint64(bits.TrailingZeros64(b.K))))
		}
		if r := c.narrowDiv(op, a, b); r != nil {
			return r
		}
	case OpBVURem:
		if b.IsConst() && b.K == 1 {
			return c.Const(w, 0)
		}
		if b.IsConst() && signExt(b.K, w) > 0 {
			if x, k2, ok := c.mulByConst(a); ok && k2 == signExt(b.K, w) {
				if lo, _, ok := c.sRange(x); ok && lo >= 0 {
					return c.Const(w, 0)
				}
			}
		}
		if b.IsConst() && bits.OnesCount64(b.K) == 1 {
			return c.BV(OpBVAnd, a, c.Const(w, b.K-1))
		}
		if r := c.narrowDiv(op, a, b); r != nil {
			return r
		}
	}
	return c.mk(op, w, 0, "", []*Term{a, b})
}

func (c *TermCtx) BVNot(a *Term) *Term {
	if a.IsConst() {
		return c.Const(a.W, ^a.K)
	}
	if a.Op == OpBVNot {
		return a.Args[0]
	}
	return c.mk(OpBVNot, a.W, 0, "", []*Term{a})
}

func (c *TermCtx) BVNeg(a *Term) *Term {
	if a.IsConst() {
		return c.Const(a.W, -a.K)
	}
	return c.mk(OpBVNeg, a.W, 0, "", []*Term{a})
}

// knownMax returns an upper bound on the unsigned value of t.
func knownMax(t *Term) uint64 {
	switch t.Op {
	case OpConst:
		return t.K
	case OpZExt:
		return knownMax(t.Args[0])
	case OpBVAnd:
		a, b := knownMax(t.Args[0]), knownMax(t.Args[1])
		if a < b {
			return a
		}
		return b
	case OpIte:
		a, b := knownMax(t.Args[1]), knownMax(t.Args[2])
		if a > b {
			return a
		}
		return b
	case OpBVLShr:
		if t.Args[1].IsConst() && t.Args[1].K < 64 {
			return knownMax(t.Args[0]) >> t.Args[1].K
		}
	case OpBVURem:
		if t.Args[1].IsConst() && t.Args[1].K > 0 {
			m := knownMax(t.Args[0])
			if m < t.Args[1].K-1 {
				return m
			}
			return t.Args[1].K - 1
		}
		return knownMax(t.Args[0])
	case OpBVUDiv:
		if t.Args[1].IsConst() && t.Args[1].K > 0 {
			return knownMax(t.Args[0]) / t.Args[1].K
		}
		return knownMax(t.Args[0])
	case OpBVAdd:
		a, b := knownMax(t.Args[0]), knownMax(t.Args[1])
		if s := a + b; s >= a && s <= mask(t.W) {
			return s
		}
	case OpBVMul:
		a, b := knownMax(t.Args[0]), knownMax(t.Args[1])
		if a == 0 || b == 0 {
			return 0
		}
		if hi, lo := bits.Mul64(a, b); hi == 0 && lo <= mask(t.W) {
			return lo
		}
	case OpBVOr, OpBVXor:
		a, b := knownMax(t.Args[0]), knownMax(t.Args[1])
		if a < b {
			a = b
		}
		if a == 0 {
			return 0
		}
		return mask(uint8(bits.Len64(a)))
	case OpBVShl:
		if t.Args[1].IsConst() && t.Args[1].K < 64 {
			a := knownMax(t.Args[0])
			if bits.Len64(a)+int(t.Args[1].K) <= int(t.W) {
				return a << t.Args[1].K
			}
		}
	}
	return mask(t.W)
}

// narrowDiv computes a div/rem of small non-negative operands at a reduced width.
func (c *TermCtx) narrowDiv(op Op, a, b *Term) *Term {
	w := a.W
	ma, mb := knownMax(a), knownMax(b)
	m := ma
	if mb > m {
		m = mb
	}
	need := uint8(bits.Len64(m)) + 1
	if need < 8 {
		need = 8
	}
	if need >= w || (b.IsConst() && b.K == 0) {
		return nil
	}
	uop := op
	switch op {
	case OpBVSDiv:
		uop = OpBVUDiv
	case OpBVSRem:
		uop = OpBVURem
	}
	if !b.IsConst() {
		return nil
	}
	na, nb := c.Extract(a, need-1, 0), c.Extract(b, need-1, 0)
	var r *Term
	if na.IsConst() && nb.IsConst() {
		v, _ := evalBin(uop, need, na.K, nb.K)
		r = c.Const(need, v)
	} else {
		r = c.mk(uop, need, 0, "", []*Term{na, nb})
	}
	return c.ZExt(r, w)
}

func (c *TermCtx) Cmp(op Op, a, b *Term) *Term {
	if a.W != b.W || a.W == 0 {
		panic(fmt.Sprintf("Cmp width mismatch %d %d", a.W, b.W))
	}
	if a.IsConst() && b.IsConst() {
		switch op {
		case OpULt:
			return c.Bool(a.K < b.K)
		case OpULe:
			return c.Bool(a.K <= b.K)
		case OpSLt:
			return c.Bool(signExt(a.K, a.W) < signExt(b.K, b.W))
		case OpSLe:
			return c.Bool(signExt(a.K, a.W) <= signExt(b.K, b.W))
		}
	}
	if a == b {
		return c.Bool(op == OpULe || op == OpSLe)
	}
	switch op {
	case OpULt:
		if b.IsConst() && b.K == 0 {
			return c.False
		}
		if b.IsConst() && knownMax(a) < b.K {
			return c.True
		}
		if a.IsConst() && a.K == mask(a.W) {
			return c.False
		}
	case OpULe:
		if a.IsConst() && a.K == 0 {
			return c.True
		}
		if b.IsConst() && knownMax(a) <= b.K {
			return c.True
		}
	case OpSLt, OpSLe:
		if la, ha, oka := c.sRange(a); oka {
			if lb, hb, okb := c.sRange(b); okb {
				// disjoint intervals decide the comparison
				if ha < lb || (op == OpSLe && ha <= lb) {
					return c.True
				}
				if la > hb || (op == OpSLt && la >= hb) {
					return c.False
				}
			}
		}
		// a < b  <=>  0 < b-a  when a, b and the (cancelled) difference are all free of wrap-around
		if !a.IsConst() && !b.IsConst() && (a.Op == OpBVAdd || b.Op == OpBVAdd) {
			if c.sRangeFull(a).exact && c.sRangeFull(b).exact {
				if d := c.cancelSub(b, a, 6); d != nil && d.W == a.W {
					if r := c.sRangeFull(d); r.exact && r.ok && (d.W == 64 || d.IsConst() || !(d.Op == OpBVAdd || d.Op == OpBVSub || d.Op == OpBVNeg || d.Op == OpBVMul) || c.strictOK(d)) {
						return c.Cmp(op, c.Const(a.W, 0), d)
					}
				}
			}
		}
		// x*k < y*k  <=>  x < y  for k > 0 when neither product can overflow
		if x, k1, ok1 := c.mulByConst(a); ok1 {
			if y, k2, ok2 := c.mulByConst(b); ok2 && k1 == k2 {
				return c.Cmp(op, x, y)
			}
			if b.IsConst() && signExt(b.K, b.W)%k1 == 0 {
				return c.Cmp(op, x, c.Const(b.W, uint64(signExt(b.K, b.W)/k1)))
			}
		} else if y, k2, ok2 := c.mulByConst(b); ok2 && a.IsConst() && signExt(a.K, a.W)%k2 == 0 {
			return c.Cmp(op, c.Const(a.W, uint64(signExt(a.K, a.W)/k2)), y)
		}
		// both known non-negative => unsigned compare decides
		sm := mask(a.W) >> 1
		if knownMax(a) <= sm && knownMax(b) <= sm {
			if op == OpSLt {
				return c.Cmp(OpULt, a, b)
			}
			return c.Cmp(OpULe, a, b)
		}
	}
	return c.mk(op, 0, 0, "", []*Term{a, b})
}

func (c *TermCtx) Concat(hi, lo *Term) *Term {
	w := hi.W + lo.W
	if hi.IsConst() && lo.IsConst() {
		return c.Const(w, hi.K<<lo.W|lo.K)
	}
	if hi.IsConst() && hi.K == 0 {
		return c.ZExt(lo, w)
	}
	// concat(extract[h:m+1](x), extract[m:l](x)) = extract[h:l](x)
	if hi.Op == OpExtract && lo.Op == OpExtract && hi.Args[0] == lo.Args[0] {
		hh, hl := hi.K>>8, hi.K&0xff
		lh, ll := lo.K>>8, lo.K&0xff
		if hl == lh+1 {
			return c.Extract(hi.Args[0], uint8(hh), uint8(ll))
		}
	}
	return c.mk(OpConcat, w, 0, "", []*Term{hi, lo})
}

func (c *TermCtx) Extract(a *Term, hi, lo uint8) *Term {
	w := hi - lo + 1
	if lo == 0 && w == a.W {
		return a
	}
	if a.IsConst() {
		return c.Const(w, a.K>>lo)
	}
	switch a.Op {
	case OpZExt:
		x := a.Args[0]
		if hi < x.W {
			return c.Extract(x, hi, lo)
		}
		if lo >= x.W {
			return c.Const(w, 0)
		}
		if lo == 0 {
			return c.ZExt(x, w)
		}
	case OpSExt:
		x := a.Args[0]
		if hi < x.W {
			return c.Extract(x, hi, lo)
		}
	case OpExtract:
		il := uint8(a.K & 0xff)
		return c.Extract(a.Args[0], hi+il, lo+il)
	case OpConcat:
		h, l := a.Args[0], a.Args[1]
		if hi < l.W {
			return c.Extract(l, hi, lo)
		}
		if lo >= l.W {
			return c.Extract(h, hi-l.W, lo-l.W)
		}
	case OpIte:
		if a.Args[1].IsConst() || a.Args[2].IsConst() {
			return c.Ite(a.Args[0], c.Extract(a.Args[1], hi, lo), c.Extract(a.Args[2], hi, lo))
		}
	case OpBVAnd, OpBVOr, OpBVXor:
		if a.Args[1].IsConst() {
			return c.BV(a.Op, c.Extract(a.Args[0], hi, lo), c.Extract(a.Args[1], hi, lo))
		}
	}
	return c.mk(OpExtract, w, uint64(hi)<<8|uint64(lo), "", []*Term{a})
}

func (c *TermCtx) ZExt(a *Term, w uint8) *Term {
	if w == a.W {
		return a
	}
	if w < a.W {
		return c.Extract(a, w-1, 0)
	}
	if a.IsConst() {
		return c.Const(w, a.K)
	}
	if a.Op == OpZExt {
		return c.ZExt(a.Args[0], w)
	}
	if a.Op == OpIte && a.Args[1].IsConst() && a.Args[2].IsConst() {
		return c.Ite(a.Args[0], c.ZExt(a.Args[1], w), c.ZExt(a.Args[2], w))
	}
	return c.mk(OpZExt, w, 0, "", []*Term{a})
}

func (c *TermCtx) SExt(a *Term, w uint8) *Term {
	if w == a.W {
		return a
	}
	if w < a.W {
		return c.Extract(a, w-1, 0)
	}
	if a.IsConst() {
		return c.Const(w, uint64(signExt(a.K, a.W)))
	}
	if a.Op == OpZExt { // sign bit known zero
		return c.ZExt(a.Args[0], w)
	}
	if knownMax(a) <= mask(a.W)>>1 {
		return c.ZExt(a, w)
	}
	return c.mk(OpSExt, w, 0, "", []*Term{a})
}

// FP compares over bv64 bit patterns.
func (c *TermCtx) FCmp(op Op, a, b *Term) *Term {
	if a.IsConst() && b.IsConst() {
		x, y := math.Float64frombits(a.K), math.Float64frombits(b.K)
		switch op {
		case OpFLt:
			return c.Bool(x < y)
		case OpFLe:
			return c.Bool(x <= y)
		case OpFEq:
			return c.Bool(x == y)
		}
	}
	return c.mk(op, 0, 0, "", []*Term{a, b})
}

func (c *TermCtx) FIsNaN(a *Term) *Term {
	if a.IsConst() {
		return c.Bool(math.IsNaN(math.Float64frombits(a.K)))
	}
	return c.mk(OpFIsNaN, 0, 0, "", []*Term{a})
}

// UF applies an uninterpreted function.
func (c *TermCtx) UF(name string, w uint8, args ...*Term) *Term {
	if _, ok := c.ufs[name]; !ok {
		var sb strings.Builder
		fmt.Fprintf(&sb, "(declare-fun %s (", name)
		for i, a := range args {
			if i > 0 {
				sb.WriteByte(' ')
			}
			sb.WriteString(sortStr(a.W))
		}
		fmt.Fprintf(&sb, ") %s)", sortStr(w))
		c.ufs[name] = sb.String()
		c.ufList = append(c.ufList, name)
	}
	return c.mk(OpUF, w, 0, name, args)
}

func sortStr(w uint8) string {
	if w == 0 {
		return "Bool"
	}
	return fmt.Sprintf("(_ BitVec %d)", w)
}

func constStr(w uint8, k uint64) string {
	if w == 0 {
		if k != 0 {
			return "true"
		}
		return "false"
	}
	if w%4 == 0 {
		return fmt.Sprintf("#x%0*x", int(w/4), k)
	}
	return fmt.Sprintf("#b%0*b", int(w), k)
}

func smtVarName(name string) string {
	return "|" + strings.NewReplacer("|", "_", "\\", "_").Replace(name) + "|"
}

// ref returns the SMT reference to t inside a definition body.
func (t *Term) ref() string {
	switch t.Op {
	case OpConst:
		return constStr(t.W, t.K)
	case OpVar:
		return smtVarName(t.Name)
	}
	return fmt.Sprintf("t%d", t.ID)
}

func fpOf(s string) string { return "((_ to_fp 11 53) " + s + ")" }

// body returns the SMT-LIB expression defining t in terms of refs of its args.
func (t *Term) body() string {
	a := func(i int) string { return t.Args[i].ref() }
	switch t.Op {
	case OpNot, OpBVNot, OpBVNeg:
		n := map[Op]string{OpNot: "not", OpBVNot: "bvnot", OpBVNeg: "bvneg"}[t.Op]
		return fmt.Sprintf("(%s %s)", n, a(0))
	case OpIte:
		return fmt.Sprintf("(ite %s %s %s)", a(0), a(1), a(2))
	case OpExtract:
		return fmt.Sprintf("((_ extract %d %d) %s)", t.K>>8, t.K&0xff, a(0))
	case OpZExt:
		return fmt.Sprintf("((_ zero_extend %d) %s)", t.W-t.Args[0].W, a(0))
	case OpSExt:
		return fmt.Sprintf("((_ sign_extend %d) %s)", t.W-t.Args[0].W, a(0))
	case OpFLt:
		return fmt.Sprintf("(fp.lt %s %s)", fpOf(a(0)), fpOf(a(1)))
	case OpFLe:
		return fmt.Sprintf("(fp.leq %s %s)", fpOf(a(0)), fpOf(a(1)))
	case OpFEq:
		return fmt.Sprintf("(fp.eq %s %s)", fpOf(a(0)), fpOf(a(1)))
	case OpFIsNaN:
		return fmt.Sprintf("(fp.isNaN %s)", fpOf(a(0)))
	case OpUF:
		var sb strings.Builder
		sb.WriteString("(" + t.Name)
		for i := range t.Args {
			sb.WriteString(" " + a(i))
		}
		sb.WriteString(")")
		return sb.String()
	}
	if n, ok := opNames[t.Op]; ok {
		return fmt.Sprintf("(%s %s %s)", n, a(0), a(1))
	}
	panic(fmt.Sprintf("body: op %d", t.Op))
}

// String renders a term as a nested expression (for samples / debugging), depth-limited.
func (t *Term) String() string { return t.str(6) }

func (t *Term) str(d int) string {
	switch t.Op {
	case OpConst:
		if t.W == 0 {
			return constStr(0, t.K)
		}
		return fmt.Sprintf("%d:bv%d", t.K, t.W)
	case OpVar:
		return t.Name
	}
	if d == 0 {
		return fmt.Sprintf("t%d", t.ID)
	}
	var sb strings.Builder
	n := opNames[t.Op]
	switch t.Op {
	case OpExtract:
		n = fmt.Sprintf("extract[%d:%d]", t.K>>8, t.K&0xff)
	case OpZExt:
		n = fmt.Sprintf("zext%d", t.W)
	case OpSExt:
		n = fmt.Sprintf("sext%d", t.W)
	case OpUF:
		n = t.Name
	case OpFLt:
		n = "fp.lt"
	case OpFLe:
		n = "fp.le"
	case OpFEq:
		n = "fp.eq"
	case OpFIsNaN:
		n = "fp.isNaN"
	}
	sb.WriteString("(" + n)
	for _, a := range t.Args {
		sb.WriteString(" " + a.str(d-1))
	}
	sb.WriteString(")")
	return sb.String()
}

// cancelSub simplifies a-b when b occurs as an addend of a (or vice versa); nil if no progress.
func (c *TermCtx) cancelSub(a, b *Term, depth int) *Term {
	if a == b {
		return c.Const(a.W, 0)
	}
	if depth == 0 {
		return nil
	}
	if a.Op == OpBVAdd {
		if r := c.cancelSub(a.Args[0], b, depth-1); r != nil {
			return c.BV(OpBVAdd, r, a.Args[1])
		}
		if r := c.cancelSub(a.Args[1], b, depth-1); r != nil {
			return c.BV(OpBVAdd, a.Args[0], r)
		}
	}
	if b.Op == OpBVAdd {
		// a - (x + y) = (a - x) - y
		if r := c.cancelSub(a, b.Args[0], depth-1); r != nil {
			return c.BV(OpBVSub, r, b.Args[1])
		}
		if r := c.cancelSub(a, b.Args[1], depth-1); r != nil {
			return c.BV(OpBVSub, r, b.Args[0])
		}
	}
	return nil
}
