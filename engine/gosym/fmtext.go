package gosym

import (
	"fmt"
	"go/types"
	"strings"

	"golang.org/x/tools/go/ssa"
)

// fmt bridge: arguments are converted to native Go values and formatted by the real fmt
// package.  Symbolic scalars cannot be formatted (their text has unknown length): the result is
// an opaque string that makes the path inconclusive only if its content is ever inspected.

type opaqueStr struct{ desc string }

// rawText formats as the given text under every verb.
type rawText string

func (r rawText) Format(f fmt.State, verb rune) { fmt.Fprint(f, string(r)) }

type nativeErr struct{ msg string }

func (e nativeErr) Error() string { return e.msg }

func (in *interpreter) hasMethod(t types.Type, name string) *ssa.Function {
	if t == nil {
		return nil
	}
	ms := in.prog.MethodSets.MethodSet(t)
	for k := 0; k < ms.Len(); k++ {
		sel := ms.At(k)
		if sel.Obj().Name() == name {
			if sig, ok := sel.Type().(*types.Signature); ok && sig.Params().Len() == 0 && sig.Results().Len() == 1 {
				if isStrType(sig.Results().At(0).Type()) {
					return in.prog.MethodValue(sel)
				}
			}
		}
	}
	return nil
}

// toNative converts an interpreter value to something fmt can print. sym is set if a symbolic
// scalar was encountered.
func (in *interpreter) toNative(fr *frame, v value, T types.Type, sym *bool, depth int) any {
	if depth > 6 {
		return rawText("…")
	}
	switch x := v.(type) {
	case nil:
		return nil
	case bool, int, int8, int16, int32, int64, uint, uint8, uint16, uint32, uint64, uintptr, float32, float64, complex64, complex128, string:
		if T != nil {
			if m := in.hasMethod(T, "String"); m != nil && depth < 3 {
				if s, ok := in.callString(fr, m, v); ok {
					return rawText(s)
				}
			}
		}
		return x
	case *Term:
		// an integer with only a few feasible values (typically an ite of constants produced by
		// merging) is concretised by forking; anything wider is formatted as an opaque string
		if T != nil && x.W > 0 {
			if w, signed, fl, ok := basicInfo(T); ok && !fl && w == x.W {
				t64 := x
				if x.W < 64 {
					if signed {
						t64 = in.ctx.SExt(x, 64)
					} else {
						t64 = in.ctx.ZExt(x, 64)
					}
				}
				if k, ok := in.decideValueMax(t64, "fmt", 16, false); ok {
					return constOfType(T, k)
				}
			}
		}
		*sym = true
		return rawText("⟨sym⟩")
	case symstr, opaqueStr:
		*sym = true
		return rawText("⟨sym⟩")
	case iface:
		if x.t == nil {
			return nil
		}
		if m := in.hasMethod(x.t, "Error"); m != nil {
			if s, ok := in.callString(fr, m, x.v); ok {
				return nativeErr{s}
			}
			*sym = true
			return rawText("⟨sym⟩")
		}
		if m := in.hasMethod(x.t, "String"); m != nil {
			if s, ok := in.callString(fr, m, x.v); ok {
				return rawText(s)
			}
			*sym = true
			return rawText("⟨sym⟩")
		}
		return in.toNative(fr, x.v, x.t, sym, depth+1)
	case *value:
		if x == nil {
			return rawText("<nil>")
		}
		if T != nil {
			if pt, ok := T.Underlying().(*types.Pointer); ok {
				if _, isStruct := pt.Elem().Underlying().(*types.Struct); isStruct {
					inner := in.toNative(fr, *x, pt.Elem(), sym, depth+1)
					return rawText("&" + fmt.Sprint(inner))
				}
			}
		}
		return rawText("0xc000000000")
	case structure:
		var parts []string
		var st *types.Struct
		if T != nil {
			st, _ = T.Underlying().(*types.Struct)
		}
		for k, f := range x {
			var ft types.Type
			if st != nil && k < st.NumFields() {
				ft = st.Field(k).Type()
			}
			parts = append(parts, fmt.Sprint(in.toNative(fr, f, ft, sym, depth+1)))
		}
		return rawText("{" + strings.Join(parts, " ") + "}")
	case array:
		var et types.Type
		if T != nil {
			if at, ok := T.Underlying().(*types.Array); ok {
				et = at.Elem()
			}
		}
		return in.nativeSlice(fr, []value(x), et, sym, depth)
	case []value:
		var et types.Type
		if T != nil {
			if st, ok := T.Underlying().(*types.Slice); ok {
				et = st.Elem()
			}
		}
		return in.nativeSlice(fr, x, et, sym, depth)
	case *mapV:
		var parts []string
		for _, e := range x.live() {
			parts = append(parts, fmt.Sprint(in.toNative(fr, e.key, nil, sym, depth+1))+":"+fmt.Sprint(in.toNative(fr, e.val, nil, sym, depth+1)))
		}
		return rawText("map[" + strings.Join(parts, " ") + "]")
	}
	return rawText(toString(v))
}

func (in *interpreter) nativeSlice(fr *frame, x []value, et types.Type, sym *bool, depth int) any {
	// []byte prints like a native []byte
	allBytes := len(x) > 0
	for _, e := range x {
		if _, ok := e.(uint8); !ok {
			allBytes = false
		}
	}
	if allBytes && et != nil {
		if b, ok := et.Underlying().(*types.Basic); ok && b.Kind() == types.Uint8 {
			bs := make([]byte, len(x))
			for i, e := range x {
				bs[i] = e.(uint8)
			}
			return bs
		}
	}
	out := make([]any, len(x))
	for i, e := range x {
		out[i] = in.toNative(fr, e, et, sym, depth+1)
	}
	return out
}

func (in *interpreter) callString(fr *frame, m *ssa.Function, recv value) (s string, ok bool) {
	defer func() {
		if p := recover(); p != nil {
			if isPathCtl(p) {
				panic(p)
			}
			ok = false
		}
	}()
	r := call(in, fr, 0, m, []value{recv})
	str, isStr := r.(string)
	return str, isStr
}

func (in *interpreter) formatArgs(fr *frame, args []value) ([]any, bool) {
	sym := false
	out := make([]any, len(args))
	for i, a := range args {
		out[i] = in.toNative(fr, a, nil, &sym, 0)
	}
	return out, sym
}

func fmtResult(s string, sym bool) value {
	if sym {
		return opaqueStr{s}
	}
	return s
}

func init() {
	externals["fmt.Sprintf"] = func(fr *frame, args []value) value {
		f, ok := args[0].(string)
		if !ok {
			return opaqueStr{"format"}
		}
		if r, ok := fr.i.sprintfStrings(f, args[1].([]value)); ok {
			return r
		}
		a, sym := fr.i.formatArgs(fr, args[1].([]value))
		return fmtResult(fmt.Sprintf(f, a...), sym)
	}
	externals["fmt.Sprint"] = func(fr *frame, args []value) value {
		a, sym := fr.i.formatArgs(fr, args[0].([]value))
		return fmtResult(fmt.Sprint(a...), sym)
	}
	externals["fmt.Sprintln"] = func(fr *frame, args []value) value {
		a, sym := fr.i.formatArgs(fr, args[0].([]value))
		return fmtResult(fmt.Sprintln(a...), sym)
	}
	externals["fmt.Errorf"] = func(fr *frame, args []value) value {
		in := fr.i
		f, _ := args[0].(string)
		vs := args[1].([]value)
		a, sym := in.formatArgs(fr, vs)
		msg := fmtResult(fmt.Sprintf(strings.ReplaceAll(f, "%w", "%v"), a...), sym)
		var wrapped value = iface{}
		if strings.Contains(f, "%w") {
			for _, v := range vs {
				if it, ok := v.(iface); ok && it.t != nil && in.hasMethod(it.t, "Error") != nil {
					wrapped = it
					break
				}
			}
		}
		fmtPkg := in.prog.ImportedPackage("fmt")
		if w, ok := wrapped.(iface); ok && w.t != nil && fmtPkg != nil {
			wt := fmtPkg.Type("wrapError").Object().Type()
			cell := make([]value, 1)
			cell[0] = structure{msg, wrapped}
			in.noteRange(cell)
			return iface{types.NewPointer(wt), &cell[0]}
		}
		errPkg := in.prog.ImportedPackage("errors")
		et := errPkg.Type("errorString").Object().Type()
		cell := make([]value, 1)
		cell[0] = structure{msg}
		in.noteRange(cell)
		return iface{types.NewPointer(et), &cell[0]}
	}
	fprint := func(fr *frame, w value, s value) value {
		in := fr.i
		var bs []value
		switch x := s.(type) {
		case string:
			bs = strBytes(x)
		default:
			panic(unsupported("Fprintf of a symbolic value"))
		}
		it := w.(iface)
		m := in.findMethod(it.t, "Write")
		if m == nil {
			panic(unsupported("Fprintf: writer without Write"))
		}
		return call(in, fr, 0, m, []value{it.v, bs})
	}
	externals["fmt.Fprintf"] = func(fr *frame, args []value) value {
		f, _ := args[1].(string)
		a, sym := fr.i.formatArgs(fr, args[2].([]value))
		return fprint(fr, args[0], fmtResult(fmt.Sprintf(f, a...), sym))
	}
	externals["fmt.Fprint"] = func(fr *frame, args []value) value {
		a, sym := fr.i.formatArgs(fr, args[1].([]value))
		return fprint(fr, args[0], fmtResult(fmt.Sprint(a...), sym))
	}
	externals["fmt.Fprintln"] = func(fr *frame, args []value) value {
		a, sym := fr.i.formatArgs(fr, args[1].([]value))
		return fprint(fr, args[0], fmtResult(fmt.Sprintln(a...), sym))
	}
	nop := func(fr *frame, args []value) value { return tuple{0, iface{}} }
	externals["fmt.Printf"] = nop
	externals["fmt.Println"] = nop
	externals["fmt.Print"] = nop
}

// sprintfStrings handles formats made only of %s / %v verbs whose operands are (possibly
// symbolic) strings: the result is the concatenation, bytes staying symbolic.
func (in *interpreter) sprintfStrings(f string, args []value) (value, bool) {
	anySym := false
	for _, a := range args {
		if it, ok := a.(iface); ok {
			if _, s := it.v.(symstr); s {
				anySym = true
			}
		}
	}
	if !anySym {
		return nil, false
	}
	var out []value
	k := 0
	for i := 0; i < len(f); i++ {
		if f[i] != '%' {
			out = append(out, f[i])
			continue
		}
		if i+1 >= len(f) {
			return nil, false
		}
		i++
		switch f[i] {
		case '%':
			out = append(out, uint8('%'))
		case 's', 'v':
			if k >= len(args) {
				return nil, false
			}
			it, ok := args[k].(iface)
			k++
			if !ok {
				return nil, false
			}
			b, ok := bytesOfStr(it.v)
			if !ok {
				return nil, false
			}
			out = append(out, b...)
		default:
			return nil, false
		}
	}
	if k != len(args) {
		return nil, false
	}
	return mkstr(out), true
}
