package gosym

import (
	"unsafe"
	"fmt"
	"go/types"
	"strings"

	"golang.org/x/tools/go/ssa"
)

var defaultStubPkgs = []string{
	"github.com/sirupsen/logrus",
	"github.com/prometheus/client_golang",
	"github.com/prometheus/client_model",
	"k8s.io/klog",
	"k8s.io/klog/v2",
	"log",
	"log/slog",
}

var defaultSkipInit = []string{
	"os", "syscall", "runtime", "internal/cpu", "internal/poll", "os/signal", "os/exec", "os/user",
	"internal/godebug", "internal/syscall/unix", "crypto/internal/fips140/check", "internal/runtime/maps",
	"testing", "flag", "internal/bisect", "crypto/rand", "math/rand", "math/rand/v2", "time",
}

// stubCall implements a call into a stubbed package: zero results, except panicking loggers.
func (i *interpreter) stubCall(fr *frame, fn *ssa.Function, args []value) value {
	n := fn.Name()
	if strings.HasPrefix(n, "Panic") || strings.HasPrefix(n, "Fatal") {
		msg := n + ":"
		for _, a := range args {
			if s, ok := a.(string); ok {
				msg += " " + s
			}
			if sl, ok := a.([]value); ok {
				for _, e := range sl {
					if it, ok := e.(iface); ok {
						msg += " " + toString(it.v)
					}
				}
			}
		}
		panic(targetPanic{iface{types.Typ[types.String], "logrus " + msg}})
	}
	return zeroResult(fn.Signature.Results())
}

func structField(p value, idx int) *value {
	pv := p.(*value)
	if pv == nil {
		panic(runtimeError("invalid memory address or nil pointer dereference"))
	}
	return &(*pv).(structure)[idx]
}

func init() {
	nop := func(fr *frame, args []value) value { return nil }
	for _, n := range []string{
		"(*sync.Mutex).Lock", "(*sync.Mutex).Unlock", "(*sync.RWMutex).Lock", "(*sync.RWMutex).Unlock",
		"(*sync.RWMutex).RLock", "(*sync.RWMutex).RUnlock", "(*sync.WaitGroup).Add", "(*sync.WaitGroup).Done",
		"(*sync.Cond).Signal", "(*sync.Cond).Broadcast", "(*sync.Pool).Put",
		"(*strings.Builder).copyCheck", "runtime.KeepAlive", "runtime.SetFinalizer", "runtime.GC", "runtime.Gosched",
		"internal/race.Acquire", "internal/race.Release", "internal/race.ReleaseMerge", "internal/race.Disable", "internal/race.Enable",
		"internal/race.Read", "internal/race.Write", "internal/race.ReadRange", "internal/race.WriteRange",
		"sync.runtime_registerPoolCleanup", "sync.runtime_procPin", "sync.runtime_procUnpin",
		"sync.throw", "sync.fatal",
		"(*sync.noCopy).Lock", "(*sync.noCopy).Unlock",
	} {
		externals[n] = nop
	}
	lock := func(fr *frame, args []value) value {
		if m := fr.i.race; m != nil && m.on {
			m.held[args[0].(*value)] = true
		}
		return nil
	}
	unlock := func(fr *frame, args []value) value {
		if m := fr.i.race; m != nil && m.on {
			delete(m.held, args[0].(*value))
		}
		return nil
	}
	externals["(*sync.Mutex).Lock"] = lock
	externals["(*sync.Mutex).Unlock"] = unlock
	externals["(*sync.RWMutex).Lock"] = lock
	externals["(*sync.RWMutex).Unlock"] = unlock
	externals["(*sync.Mutex).TryLock"] = func(fr *frame, args []value) value { return true }
	externals["(*sync.WaitGroup).Wait"] = func(fr *frame, args []value) value { fr.i.runGoroutines(); return nil }
	externals["(*sync.WaitGroup).Go"] = func(fr *frame, args []value) value {
		call(fr.i, fr, 0, args[1], nil)
		return nil
	}
	externals["(*sync.Cond).Wait"] = func(fr *frame, args []value) value {
		fr.i.runGoroutines()
		return nil
	}
	externals["(*sync.Pool).Get"] = func(fr *frame, args []value) value {
		// Pool{noCopy, local, localSize, victim, victimSize, New}
		st := (*args[0].(*value)).(structure)
		nw := st[len(st)-1]
		switch f := nw.(type) {
		case *ssa.Function:
			if f == nil {
				return iface{}
			}
		}
		return call(fr.i, fr, 0, nw, nil)
	}
	externals["(*strings.Builder).String"] = func(fr *frame, args []value) value {
		st := (*args[0].(*value)).(structure)
		buf, _ := st[1].([]value)
		return mkstr(buf)
	}
	externals["strings.Clone"] = func(fr *frame, args []value) value { return args[0] }
	externals["os.Getenv"] = func(fr *frame, args []value) value { return "" }
	externals["os.LookupEnv"] = func(fr *frame, args []value) value { return tuple{"", false} }
	externals["runtime.Caller"] = func(fr *frame, args []value) value { return tuple{uintptr(0), "", 0, false} }
	externals["runtime.Callers"] = func(fr *frame, args []value) value { return 0 }

	// sync/atomic on boxed slots
	for _, ty := range []string{"Int32", "Int64", "Uint32", "Uint64", "Uintptr", "Pointer"} {
		ty := ty
		externals["sync/atomic.Load"+ty] = func(fr *frame, args []value) value { return *args[0].(*value) }
		externals["sync/atomic.Store"+ty] = func(fr *frame, args []value) value {
			fr.i.write(args[0].(*value), args[1])
			return nil
		}
		externals["sync/atomic.Swap"+ty] = func(fr *frame, args []value) value {
			old := *args[0].(*value)
			fr.i.write(args[0].(*value), args[1])
			return old
		}
		externals["sync/atomic.CompareAndSwap"+ty] = func(fr *frame, args []value) value {
			p := args[0].(*value)
			var T types.Type = types.Typ[types.Uint64]
			eq := fr.i.symEquals(T, *p, args[1])
			b, ok := eq.(bool)
			if !ok {
				b = fr.i.decideBool(eq.(*Term), "cas")
			}
			if b {
				fr.i.write(p, args[2])
			}
			return b
		}
		if ty != "Pointer" {
			externals["sync/atomic.Add"+ty] = func(fr *frame, args []value) value {
				p := args[0].(*value)
				f := fr.fn.Signature.Params().At(1).Type()
				nv := fr.i.binop(tokenADD, f, *p, args[1])
				fr.i.write(p, nv)
				return nv
			}
		}
	}

	// internal/bytealg over possibly-symbolic bytes
	externals["internal/bytealg.IndexByteString"] = func(fr *frame, args []value) value {
		b, _ := bytesOfStr(args[0])
		return fr.i.indexByte(b, args[1])
	}
	externals["internal/bytealg.IndexByte"] = func(fr *frame, args []value) value {
		return fr.i.indexByte(args[0].([]value), args[1])
	}
	externals["internal/bytealg.LastIndexByteString"] = func(fr *frame, args []value) value {
		b, _ := bytesOfStr(args[0])
		return fr.i.lastIndexByte(b, args[1])
	}
	externals["internal/bytealg.LastIndexByte"] = func(fr *frame, args []value) value {
		return fr.i.lastIndexByte(args[0].([]value), args[1])
	}
	externals["internal/bytealg.CountString"] = func(fr *frame, args []value) value {
		b, _ := bytesOfStr(args[0])
		return fr.i.countByte(b, args[1])
	}
	externals["internal/bytealg.Count"] = func(fr *frame, args []value) value {
		return fr.i.countByte(args[0].([]value), args[1])
	}
	externals["internal/bytealg.Equal"] = func(fr *frame, args []value) value {
		return fr.i.bytesEqual(args[0].([]value), args[1].([]value))
	}
	externals["bytes.Equal"] = externals["internal/bytealg.Equal"]
	externals["internal/bytealg.Compare"] = func(fr *frame, args []value) value {
		return fr.i.bytesCompare(args[0].([]value), args[1].([]value))
	}
	externals["internal/bytealg.CompareString"] = func(fr *frame, args []value) value {
		a, _ := bytesOfStr(args[0])
		b, _ := bytesOfStr(args[1])
		return fr.i.bytesCompare(a, b)
	}
	externals["strings.Compare"] = externals["internal/bytealg.CompareString"]
	externals["internal/bytealg.IndexString"] = func(fr *frame, args []value) value {
		a, _ := bytesOfStr(args[0])
		b, _ := bytesOfStr(args[1])
		return fr.i.indexBytes(a, b)
	}
	externals["internal/bytealg.Index"] = func(fr *frame, args []value) value {
		return fr.i.indexBytes(args[0].([]value), args[1].([]value))
	}
	externals["internal/bytealg.MakeNoZero"] = func(fr *frame, args []value) value {
		n := int(fr.i.concreteInt(args[0]))
		out := make([]value, n)
		for k := range out {
			out[k] = uint8(0)
		}
		fr.i.noteRange(out)
		return out
	}
	externals["internal/stringslite.Index"] = externals["internal/bytealg.IndexString"]
	externals["internal/stringslite.IndexByte"] = externals["internal/bytealg.IndexByteString"]
	externals["errors.Is"] = extErrorsIs
	externals["internal/reflectlite.TypeOf"] = ext۰reflect۰TypeOf
}

const tokenADD = 12 // token.ADD

func (in *interpreter) byteEq(a, b value) bool {
	r := in.symEquals(types.Typ[types.Uint8], a, b)
	if bv, ok := r.(bool); ok {
		return bv
	}
	return in.decideBool(r.(*Term), "byteeq")
}

func (in *interpreter) indexByte(b []value, c value) value {
	for k := range b {
		if in.byteEq(b[k], c) {
			return k
		}
	}
	return -1
}

func (in *interpreter) lastIndexByte(b []value, c value) value {
	for k := len(b) - 1; k >= 0; k-- {
		if in.byteEq(b[k], c) {
			return k
		}
	}
	return -1
}

func (in *interpreter) countByte(b []value, c value) value {
	n := 0
	for k := range b {
		if in.byteEq(b[k], c) {
			n++
		}
	}
	return n
}

func (in *interpreter) bytesEqual(a, b []value) value {
	if len(a) != len(b) {
		return false
	}
	acc := in.ctx.True
	for k := range a {
		x, _ := in.termOf(a[k])
		y, _ := in.termOf(b[k])
		acc = in.ctx.And(acc, in.ctx.Eq(x, y))
	}
	return boolVal(acc)
}

func (in *interpreter) bytesCompare(a, b []value) value {
	lt := in.strLess(a, b, false)
	gt := in.strLess(b, a, false)
	c := in.ctx
	r := c.Ite(lt, c.Const(64, ^uint64(0)), c.Ite(gt, c.Const(64, 1), c.Const(64, 0)))
	return fromTerm(types.Typ[types.Int], r)
}

func (in *interpreter) indexBytes(a, sub []value) value {
	if len(sub) == 0 {
		return 0
	}
	for k := 0; k+len(sub) <= len(a); k++ {
		eq := in.bytesEqual(a[k:k+len(sub)], sub)
		switch e := eq.(type) {
		case bool:
			if e {
				return k
			}
		case *Term:
			if in.decideBool(e, "index") {
				return k
			}
		}
	}
	return -1
}

// errors.Is without reflectlite: pointer/value equality along the Unwrap chain.
func extErrorsIs(fr *frame, args []value) value {
	in := fr.i
	err, target := args[0].(iface), args[1].(iface)
	if err.t == nil || target.t == nil {
		return err.t == nil && target.t == nil
	}
	for depth := 0; depth < 32; depth++ {
		if sameType(err.t, target.t) && types.Comparable(err.t) {
			eq := in.symEquals(err.t, err.v, target.v)
			if b, ok := eq.(bool); ok && b {
				return true
			}
		}
		// Is method?
		if m := in.findMethod(err.t, "Is"); m != nil {
			r := call(in, fr, 0, m, []value{err.v, target})
			if b, ok := r.(bool); ok && b {
				return true
			}
		}
		u := in.findMethod(err.t, "Unwrap")
		if u == nil {
			return false
		}
		r := call(in, fr, 0, u, []value{err.v})
		next, ok := r.(iface)
		if !ok || next.t == nil {
			return false
		}
		err = next
	}
	return false
}

func (in *interpreter) findMethod(t types.Type, name string) *ssa.Function {
	ms := in.prog.MethodSets.MethodSet(t)
	for k := 0; k < ms.Len(); k++ {
		if sel := ms.At(k); sel.Obj().Name() == name {
			return in.prog.MethodValue(sel)
		}
	}
	return nil
}

var _ = fmt.Sprintf

// hash/maphash: any hash function is semantically acceptable for the caches that use it; model
// the worst case (every input collides) so the code's own equality checks decide.
func init() {
	nopv := func(fr *frame, args []value) value { return nil }
	externals["(*hash/maphash.Hash).SetSeed"] = nopv
	externals["(*hash/maphash.Hash).Reset"] = nopv
	externals["(*hash/maphash.Hash).WriteString"] = func(fr *frame, args []value) value {
		b, _ := bytesOfStr(args[1])
		return tuple{len(b), iface{}}
	}
	externals["(*hash/maphash.Hash).WriteByte"] = func(fr *frame, args []value) value { return iface{} }
	externals["(*hash/maphash.Hash).Write"] = func(fr *frame, args []value) value {
		return tuple{len(args[1].([]value)), iface{}}
	}
	externals["(*hash/maphash.Hash).Sum64"] = func(fr *frame, args []value) value { return uint64(0) }
	externals["hash/maphash.MakeSeed"] = func(fr *frame, args []value) value { return structure{uint64(1)} }
	externals["hash/maphash.String"] = func(fr *frame, args []value) value { return uint64(0) }
	externals["hash/maphash.Bytes"] = func(fr *frame, args []value) value { return uint64(0) }
}

// crypto/internal/fips140/alias compares the data pointers of two byte slices; slices are Go
// slices of cells here, so the comparison is done on the cells' real addresses.
func init() {
	overlap := func(args []value) (any, inexact bool) {
		x, _ := args[0].([]value)
		y, _ := args[1].([]value)
		if len(x) == 0 || len(y) == 0 {
			return false, false
		}
		x0, x1 := uintptr(unsafe.Pointer(&x[0])), uintptr(unsafe.Pointer(&x[len(x)-1]))
		y0, y1 := uintptr(unsafe.Pointer(&y[0])), uintptr(unsafe.Pointer(&y[len(y)-1]))
		return x0 <= y1 && y0 <= x1, x0 == y0
	}
	for _, pkg := range []string{"crypto/internal/fips140/alias", "crypto/internal/alias", "golang.org/x/crypto/internal/alias"} {
		externals[pkg+".AnyOverlap"] = func(fr *frame, args []value) value { a, _ := overlap(args); return a }
		externals[pkg+".InexactOverlap"] = func(fr *frame, args []value) value {
			a, same := overlap(args)
			return a && !same
		}
	}
}

// crypto/internal/fips140/subtle.xorBytes (assembly): dst[i] = a[i] ^ b[i] over cells.
func init() {
	externals["crypto/internal/fips140/subtle.xorBytes"] = func(fr *frame, args []value) value {
		dst, a, b := args[0].(*value), args[1].(*value), args[2].(*value)
		n := int(asInt64(args[3]))
		cell := func(p *value, i int) *value {
			return (*value)(unsafe.Add(unsafe.Pointer(p), uintptr(i)*unsafe.Sizeof(value(nil))))
		}
		c := fr.i.ctx
		for i := 0; i < n; i++ {
			x, y := *cell(a, i), *cell(b, i)
			xc, xok := x.(uint8)
			yc, yok := y.(uint8)
			var r value
			if xok && yok {
				r = xc ^ yc
			} else {
				xt, _ := fr.i.termOf(x)
				yt, _ := fr.i.termOf(y)
				r = c.BV(OpBVXor, xt, yt)
			}
			fr.i.store(types.Typ[types.Uint8], cell(dst, i), r)
		}
		return nil
	}
}

// crypto/internal/fips140 service indicator (goroutine-local, runtime-linked): one cell.
func init() {
	var ind uint8
	externals["crypto/internal/fips140.getIndicator"] = func(fr *frame, args []value) value { return ind }
	externals["crypto/internal/fips140.setIndicator"] = func(fr *frame, args []value) value { ind = args[0].(uint8); return nil }
}
