package gosym

import (
	"bufio"
	"bytes"
	"context"
	"fmt"
	"io"
	"os"
	"os/exec"
	"strconv"
	"strings"
	"time"
)

type Result int

const (
	Unsat Result = iota
	Sat
	Unknown
)

func (r Result) String() string { return [...]string{"unsat", "sat", "unknown"}[r] }

// proc is one incremental SMT solver process speaking SMT-LIB2 on stdin/stdout.
type proc struct {
	kind    string
	logic   string
	cmd     *exec.Cmd
	in      io.WriteCloser
	out     *bufio.Reader
	ctx     *TermCtx
	defined map[int]bool
	declUF  map[string]bool
	stack   []*Term
	seq     int
	log     io.Writer
	dead    bool
	lastErr string
	tmoMs   int
}

// Solver: a QF_BV process for pure bit-vector queries, a general one for UF/FP queries,
// and one-shot fallbacks (other solvers) when the primary answers unknown.
type Solver struct {
	kind  string
	ctx   *TermCtx
	tmoMs int
	bv    *proc
	gen   *proc

	Queries   int
	NSat      int
	NUnsat    int
	NUnknown  int
	Errors    int
	ErrorRetries int
	ErrorSample  string // first (error ...) line seen, for the evidence
	Restarts  int
	Fallbacks int
	FallbackOK int
	SolverSec float64
	NoFallback bool
	FastMs    int
	primaryLogic string
}

func startProc(kind, logic string, ctx *TermCtx, timeoutMs int) (*proc, error) {
	var cmd *exec.Cmd
	switch kind {
	case "z3", "z3-new":
		cmd = exec.Command(kind, "-in")
	case "cvc5":
		cmd = exec.Command("cvc5", "--incremental", "--produce-models", "--tlimit-per="+strconv.Itoa(timeoutMs))
	default:
		return nil, fmt.Errorf("unknown solver %q", kind)
	}
	in, err := cmd.StdinPipe()
	if err != nil {
		return nil, err
	}
	out, err := cmd.StdoutPipe()
	if err != nil {
		return nil, err
	}
	cmd.Stderr = cmd.Stdout
	if err := cmd.Start(); err != nil {
		return nil, err
	}
	var logw io.Writer
	if p := os.Getenv("GOSYM_SOLVER_LOG"); p != "" {
		f, _ := os.OpenFile(p+"."+logic, os.O_CREATE|os.O_WRONLY|os.O_APPEND, 0o644)
		logw = f
	}
	s := &proc{log: logw, kind: kind, logic: logic, cmd: cmd, in: in, out: bufio.NewReaderSize(out, 1<<16), ctx: ctx,
		defined: map[int]bool{}, declUF: map[string]bool{}, tmoMs: timeoutMs}
	s.send("(set-option :global-declarations true)\n")
	if strings.HasPrefix(kind, "z3") {
		s.send(fmt.Sprintf("(set-option :timeout %d)\n", timeoutMs))
	}
	if logic != "" {
		s.send("(set-logic " + logic + ")\n")
	}
	return s, nil
}

func NewSolver(kind string, ctx *TermCtx, timeoutMs int) (*Solver, error) {
	bvPrimary := false
	if strings.HasSuffix(kind, "+bv") {
		// bit-heavy harnesses: incremental QF_BV bit-blasting as the primary (slow per query on
		// thousands of tiny queries, much better on hard bit-level ones)
		bvPrimary = true
		kind = strings.TrimSuffix(kind, "+bv")
	}
	if kind == "" {
		kind = "z3-new"
	}
	if bvPrimary {
		s := &Solver{kind: kind, ctx: ctx, tmoMs: timeoutMs, FastMs: timeoutMs, primaryLogic: "QF_BV"}
		p, err := startProc(kind, "QF_BV", ctx, timeoutMs)
		if err != nil {
			return nil, err
		}
		s.bv = p
		return s, nil
	}
	s := &Solver{kind: kind, ctx: ctx, tmoMs: timeoutMs, FastMs: 3000}
	if s.FastMs > timeoutMs {
		s.FastMs = timeoutMs
	}
	// Primary: incremental general core (fast on the many small push/pop queries).  Hard
	// bit-level queries time out there quickly and go to a one-shot QF_BV bit-blasting run.
	p, err := startProc(kind, "", ctx, s.FastMs)
	if err != nil {
		return nil, err
	}
	s.bv = p
	return s, nil
}

func (s *Solver) Close() {
	for _, p := range []*proc{s.bv, s.gen} {
		if p != nil && p.cmd != nil && p.cmd.Process != nil {
			p.in.Close()
			p.cmd.Process.Kill()
			p.cmd.Wait()
		}
	}
}

func (s *proc) send(txt string) {
	if s.log != nil {
		io.WriteString(s.log, txt)
	}
	if _, err := io.WriteString(s.in, txt); err != nil {
		s.dead = true
	}
}

// sync sends an echo marker and returns all output lines before it.
func (s *proc) sync() []string {
	s.seq++
	mark := fmt.Sprintf("<<%d>>", s.seq)
	s.send(fmt.Sprintf("(echo \"%s\")\n", mark))
	var lines []string
	for {
		line, err := s.out.ReadString('\n')
		line = strings.TrimSpace(line)
		if strings.Trim(line, "\"") == mark {
			return lines
		}
		if line != "" {
			lines = append(lines, line)
		}
		if err != nil {
			s.dead = true
			lines = append(lines, "(died \""+err.Error()+"\")") // watchdog kill or crash: the query is unknown, not an encoding error
			return lines
		}
	}
}

// emitDefs writes declarations/definitions for t's sub-DAG not yet in defined.
func emitDefs(ctx *TermCtx, t *Term, defined map[int]bool, declUF map[string]bool, sb *strings.Builder) {
	if defined[t.ID] {
		return
	}
	type fr struct {
		t *Term
		i int
	}
	st := []fr{{t, 0}}
	for len(st) > 0 {
		top := &st[len(st)-1]
		if defined[top.t.ID] {
			st = st[:len(st)-1]
			continue
		}
		if top.i < len(top.t.Args) {
			a := top.t.Args[top.i]
			top.i++
			if !defined[a.ID] {
				st = append(st, fr{a, 0})
			}
			continue
		}
		u := top.t
		st = st[:len(st)-1]
		defined[u.ID] = true
		switch u.Op {
		case OpConst:
		case OpVar:
			fmt.Fprintf(sb, "(declare-const %s %s)\n", smtVarName(u.Name), sortStr(u.W))
		default:
			if u.Op == OpUF && !declUF[u.Name] {
				declUF[u.Name] = true
				sb.WriteString(ctx.ufs[u.Name] + "\n")
			}
			fmt.Fprintf(sb, "(define-fun t%d () %s %s)\n", u.ID, sortStr(u.W), u.body())
		}
	}
}

func (s *proc) define(t *Term, sb *strings.Builder) {
	emitDefs(s.ctx, t, s.defined, s.declUF, sb)
}

// align makes the solver's assertion stack equal to pc.
func (s *proc) align(pc []*Term, sb *strings.Builder) {
	n := 0
	for n < len(pc) && n < len(s.stack) && pc[n] == s.stack[n] {
		n++
	}
	if k := len(s.stack) - n; k > 0 {
		fmt.Fprintf(sb, "(pop %d)\n", k)
		s.stack = s.stack[:n]
	}
	for _, t := range pc[n:] {
		s.define(t, sb)
		fmt.Fprintf(sb, "(push 1)\n(assert %s)\n", t.ref())
		s.stack = append(s.stack, t)
	}
}

func parseResult(lines []string) (Result, bool) {
	res := Unknown
	bad := false
	for _, l := range lines {
		switch {
		case l == "sat":
			res = Sat
		case l == "unsat":
			res = Unsat
		case l == "unknown":
			res = Unknown
		case strings.HasPrefix(l, "(died"):
			return Unknown, false
		case strings.Contains(l, "error"):
			bad = true
		}
	}
	if bad {
		return Unknown, true
	}
	return res, false
}

func (s *proc) check(pc []*Term, extra *Term, wantModel bool) (Result, map[string]uint64, bool) {
	if s.dead {
		return Unknown, nil, true
	}
	var sb strings.Builder
	s.align(pc, &sb)
	if extra != nil {
		s.define(extra, &sb)
		fmt.Fprintf(&sb, "(push 1)\n(assert %s)\n", extra.ref())
	}
	sb.WriteString("(check-sat)\n")
	// watchdog: some solver phases ignore the soft timeout
	wd := time.AfterFunc(time.Duration(s.tmoMs+s.tmoMs/2+3000)*time.Millisecond, func() {
		if s.cmd != nil && s.cmd.Process != nil {
			s.cmd.Process.Kill()
		}
	})
	s.send(sb.String())
	lines := s.sync()
	wd.Stop()
	res, bad := parseResult(lines)
	if bad {
		for _, l := range lines {
			if strings.Contains(l, "error") {
				s.lastErr = l
				break
			}
		}
	}
	var model map[string]uint64
	if res == Sat && wantModel {
		model = s.getModel(varsOf(append(append([]*Term(nil), pc...), extra)))
	}
	if extra != nil {
		s.send("(pop 1)\n")
	}
	return res, model, bad
}

// Check decides satisfiability of pc ∧ extra (extra may be nil).
func (s *Solver) Check(pc []*Term, extra *Term, wantModel bool) (Result, map[string]uint64) {
	nonbv := extra != nil && extra.NonBV
	for _, t := range pc {
		if t.NonBV {
			nonbv = true
			break
		}
	}
	if s.bv != nil && s.bv.dead {
		s.bv.cmd.Wait()
		s.Restarts++
		s.bv, _ = startProc(s.kind, s.primaryLogic, s.ctx, s.FastMs)
	}
	if s.gen != nil && s.gen.dead {
		s.gen.cmd.Wait()
		s.Restarts++
		s.gen = nil
	}
	p := s.bv
	if p == nil {
		s.NUnknown++
		return Unknown, nil
	}
	t0 := time.Now()
	res, model, bad := p.check(pc, extra, wantModel)
	if bad && !p.dead {
		// the solver printed an (error ...) line: its assertion stack can no longer be trusted, so the
		// process is discarded and the query retried on a fresh one
		s.ErrorRetries++
		if p.cmd != nil && p.cmd.Process != nil {
			p.cmd.Process.Kill()
		}
		p.dead = true
	}
	if p.dead {
		// the process was killed by the watchdog (or died): restart and retry once
		p.cmd.Wait()
		s.Restarts++
		if np, err := startProc(s.kind, s.primaryLogic, s.ctx, s.FastMs); err == nil {
			s.bv = np
			res, model, bad = np.check(pc, extra, wantModel)
			if bad {
				// still an error on a fresh process: an encoding problem, never a verdict
				res, model = Unknown, nil
				if np.cmd != nil && np.cmd.Process != nil {
					np.cmd.Process.Kill()
				}
				np.dead = true
			}
		}
	}
	if bad {
		s.Errors++
	}
	if s.ErrorSample == "" && p.lastErr != "" {
		s.ErrorSample = p.lastErr
	}
	if res == Unknown && !s.NoFallback {
		s.Fallbacks++
		if r2, m2 := s.fallback(pc, extra, wantModel, nonbv); r2 != Unknown {
			s.FallbackOK++
			res, model = r2, m2
		}
	}
	if res == Unknown {
		if d := os.Getenv("GOSYM_DUMP_UNKNOWN"); d != "" {
			sc, _ := s.Standalone(pc, extra, "")
			os.WriteFile(fmt.Sprintf("%s/unknown_%d_%d.smt2", d, os.Getpid(), s.Queries), []byte(sc), 0o644)
		}
	}
	s.SolverSec += time.Since(t0).Seconds()
	s.Queries++
	switch res {
	case Sat:
		s.NSat++
	case Unsat:
		s.NUnsat++
	default:
		s.NUnknown++
	}
	return res, model
}

// Standalone renders pc ∧ extra as a self-contained SMT-LIB2 script.
func (s *Solver) Standalone(pc []*Term, extra *Term, logic string) (string, []*Term) {
	var sb strings.Builder
	if logic != "" {
		sb.WriteString("(set-logic " + logic + ")\n")
	}
	defined := map[int]bool{}
	declUF := map[string]bool{}
	all := append([]*Term(nil), pc...)
	if extra != nil {
		all = append(all, extra)
	}
	for _, t := range all {
		emitDefs(s.ctx, t, defined, declUF, &sb)
		fmt.Fprintf(&sb, "(assert %s)\n", t.ref())
	}
	sb.WriteString("(check-sat)\n")
	var vars []*Term
	for _, v := range s.ctx.vars {
		if defined[v.ID] {
			vars = append(vars, v)
		}
	}
	return sb.String(), vars
}

func (s *Solver) fallback(pc []*Term, extra *Term, wantModel, nonbv bool) (Result, map[string]uint64) {
	logic := "QF_BV"
	if nonbv {
		logic = ""
	}
	script, vars := s.Standalone(pc, extra, logic)
	if wantModel && len(vars) > 0 {
		var names []string
		for _, v := range vars {
			names = append(names, smtVarName(v.Name))
		}
		script += "(get-value (" + strings.Join(names, " ") + "))\n"
	}
	type alt struct {
		name string
		args []string
	}
	tsec := s.tmoMs / 1000
	if tsec < 1 {
		tsec = 1
	}
	alts := []alt{
		{"z3-new", []string{"-in", fmt.Sprintf("-T:%d", tsec)}},
		{"z3", []string{"-in", fmt.Sprintf("-T:%d", tsec)}},
		{"cvc5", []string{"--produce-models", fmt.Sprintf("--tlimit=%d", s.tmoMs)}},
	}
	for _, a := range alts {
		sc := script
		if a.name == "cvc5" && logic == "" {
			sc = "(set-logic ALL)\n" + script
		}
		ctx, cancel := context.WithTimeout(context.Background(), time.Duration(s.tmoMs+2000)*time.Millisecond)
		cmd := exec.CommandContext(ctx, a.name, a.args...)
		cmd.Stdin = strings.NewReader(sc)
		var out bytes.Buffer
		cmd.Stdout = &out
		cmd.Stderr = &out
		cmd.Run()
		cancel()
		lines := strings.Split(out.String(), "\n")
		for k := range lines {
			lines[k] = strings.TrimSpace(lines[k])
		}
		head := lines
		if len(head) > 1 {
			head = head[:1] // first line is the check-sat answer; a get-value after unsat prints an error
		}
		res, bad := parseResult(head)
		if bad || res == Unknown {
			continue
		}
		if res == Sat && wantModel {
			return res, parseModel(strings.Join(lines, " "), vars)
		}
		return res, nil
	}
	return Unknown, nil
}

func parseModel(txt string, vars []*Term) map[string]uint64 {
	model := map[string]uint64{}
	want := map[string]string{}
	for _, v := range vars {
		want[smtVarName(v.Name)] = v.Name
	}
	// entries look like (|name| #x..) / (|name| #b..) / (|name| true) / (|name| (_ bv5 8))
	i := 0
	for i < len(txt) {
		j := strings.Index(txt[i:], "(|")
		if j < 0 {
			break
		}
		i += j + 1
		k := strings.Index(txt[i+1:], "|")
		if k < 0 {
			break
		}
		key := txt[i : i+k+2]
		i += k + 2
		name, ok := want[key]
		if !ok {
			continue
		}
		rest := strings.TrimLeft(txt[i:], " ")
		e := strings.IndexByte(rest, ')')
		if e < 0 {
			break
		}
		tok := strings.TrimSpace(rest[:e])
		switch {
		case tok == "true":
			model[name] = 1
		case tok == "false":
			model[name] = 0
		case strings.HasPrefix(tok, "#x"):
			u, _ := strconv.ParseUint(tok[2:], 16, 64)
			model[name] = u
		case strings.HasPrefix(tok, "#b"):
			u, _ := strconv.ParseUint(tok[2:], 2, 64)
			model[name] = u
		case strings.HasPrefix(tok, "(_ bv"):
			f := strings.Fields(tok[5:])
			u, _ := strconv.ParseUint(f[0], 10, 64)
			model[name] = u
		}
	}
	return model
}

// varsOf collects the variables occurring in the given terms.
func varsOf(ts []*Term) []*Term {
	seen := map[int]bool{}
	var out []*Term
	var st []*Term
	for _, t := range ts {
		if t != nil {
			st = append(st, t)
		}
	}
	for len(st) > 0 {
		t := st[len(st)-1]
		st = st[:len(st)-1]
		if seen[t.ID] {
			continue
		}
		seen[t.ID] = true
		if t.Op == OpVar {
			out = append(out, t)
		}
		st = append(st, t.Args...)
	}
	return out
}

func (s *proc) getModel(vars []*Term) map[string]uint64 {
	var names []string
	for _, v := range vars {
		names = append(names, smtVarName(v.Name))
	}
	if len(names) == 0 {
		return map[string]uint64{}
	}
	s.send("(get-value (" + strings.Join(names, " ") + "))\n")
	lines := s.sync()
	return parseModel(strings.Join(lines, " "), vars)
}
