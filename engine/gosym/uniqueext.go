package gosym

import "go/types"

// unique.Handle[T]: the handle's pointer field holds a uniqH carrying the value itself, so
// that handle equality / hashing is value equality (which is what unique guarantees) even
// when the value has symbolic bytes.
type uniqH struct {
	t types.Type
	v value
}

func uniqueMake(fr *frame, args []value) value {
	T := fr.fn.Signature.Params().At(0).Type()
	return structure{uniqH{T, args[0]}}
}

func uniqueValue(fr *frame, args []value) value {
	h, ok := args[0].(structure)[0].(uniqH)
	if !ok {
		panic(runtimeError("invalid memory address or nil pointer dereference (zero unique.Handle)"))
	}
	return h.v
}
