package gosym

import "go/types"

// mustDeref returns the element type of pointer type t (core type aware).
func mustDeref(t types.Type) types.Type {
	if p, ok := t.Underlying().(*types.Pointer); ok {
		return p.Elem()
	}
	if tp, ok := types.Unalias(t).(*types.TypeParam); ok {
		_ = tp
	}
	panic("mustDeref: not a pointer: " + t.String())
}

func typesNewPointer(t types.Type) types.Type { return types.NewPointer(t) }
