package gosym

import (
	"testing"
	"time"
)

func TestSolverLatency(t *testing.T) {
	c := NewTermCtx()
	s, err := NewSolver("z3-new", c, 20000)
	if err != nil {
		t.Fatal(err)
	}
	defer s.Close()
	x := c.Var("x", 32)
	t0 := time.Now()
	for k := 0; k < 64; k++ {
		bit := c.Const(32, 1<<(k%32))
		cond := c.Not(c.Eq(c.BV(OpBVAnd, x, bit), c.Const(32, 0)))
		r, _ := s.Check(nil, cond, false)
		if r != Sat {
			t.Fatal(r)
		}
	}
	t.Logf("64 queries in %v", time.Since(t0))
}
