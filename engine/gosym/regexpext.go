package gosym

// (*regexp.Regexp).MatchString / Match on a string with symbolic bytes: the (concrete) pattern is
// compiled natively with regexp/syntax and its NFA is simulated position by position; thread
// conditions are boolean terms over the string's bytes, the result is one boolean term.  This
// replaces interpreting package regexp byte by byte (which forks at every character class test).
// Bytes are treated as ASCII characters: the result is used only on paths where every byte is
// proved < 0x80 (the interpreter forks on that; the non-ASCII side is reported as unsupported).

import (
	"regexp/syntax"
	"sync"
	"unicode"
)

func init() {
	match := func(fr *frame, args []value) value {
		in := fr.i
		re := args[0].(*value)
		bs, ok := bytesOfStr(args[1])
		if !ok {
			if sl, isSlice := args[1].([]value); isSlice {
				bs = sl
			} else {
				panic(unsupported("regexp match on an opaque string"))
			}
		}
		expr, isConc := (*re).(structure)[0].(string)
		if !isConc {
			panic(unsupported("regexp with a symbolic pattern"))
		}
		return in.regexpMatch(expr, bs)
	}
	symOnlyStr["(*regexp.Regexp).MatchString"] = match
	symOnlyStr["(*regexp.Regexp).Match"] = match
}

// symOnlyStr externals apply only when the second argument is a string/[]byte with symbolic bytes.
var symOnlyStr = map[string]externalFn{}

func hasSymBytes(v value) bool {
	switch s := v.(type) {
	case symstr:
		return true
	case []value:
		for _, b := range s {
			if _, isT := b.(*Term); isT {
				return true
			}
		}
	}
	return false
}

var regexpProgCache = map[string]*syntax.Prog{}
var regexpProgCacheMu = &sync.Mutex{}

func regexpProg(expr string) *syntax.Prog {
	shared := regexpProgCacheMu
	shared.Lock()
	defer shared.Unlock()
	if p, ok := regexpProgCache[expr]; ok {
		return p
	}
	re, err := syntax.Parse(expr, syntax.Perl)
	if err != nil {
		panic(unsupported("regexp pattern does not parse natively: " + err.Error()))
	}
	p, err := syntax.Compile(re.Simplify())
	if err != nil {
		panic(unsupported("regexp pattern does not compile natively: " + err.Error()))
	}
	regexpProgCache[expr] = p
	return p
}

func (in *interpreter) regexpMatch(expr string, bs []value) value {
	c := in.ctx
	prog := regexpProg(expr)
	n := len(bs)
	bt := make([]*Term, n)
	ascii := c.True
	for i, b := range bs {
		t, _ := in.termOf(b)
		bt[i] = t
		ascii = c.And(ascii, c.Cmp(OpULt, t, c.Const(8, 0x80)))
	}
	if !ascii.IsConst() || ascii.K == 0 {
		if !in.decideBool(ascii, "regexp: all bytes ASCII") {
			panic(unsupported("regexp match on a symbolic string with non-ASCII bytes"))
		}
	}
	isWord := func(i int) *Term { // is bs[i] a word character; out of range = false
		if i < 0 || i >= n {
			return c.False
		}
		b := bt[i]
		in1 := func(lo, hi byte) *Term {
			return c.And(c.Cmp(OpULe, c.Const(8, uint64(lo)), b), c.Cmp(OpULe, b, c.Const(8, uint64(hi))))
		}
		return c.Or(c.Or(in1('a', 'z'), in1('A', 'Z')), c.Or(in1('0', '9'), c.Eq(b, c.Const(8, '_'))))
	}
	isNL := func(i int) *Term { return c.Eq(bt[i], c.Const(8, '\n')) }
	emptyCond := func(op syntax.EmptyOp, pos int) *Term {
		r := c.True
		if op&syntax.EmptyBeginText != 0 && pos != 0 {
			r = c.False
		}
		if op&syntax.EmptyEndText != 0 && pos != n {
			r = c.False
		}
		if op&syntax.EmptyBeginLine != 0 && pos != 0 {
			r = c.And(r, isNL(pos-1))
		}
		if op&syntax.EmptyEndLine != 0 && pos != n {
			r = c.And(r, isNL(pos))
		}
		if op&(syntax.EmptyWordBoundary|syntax.EmptyNoWordBoundary) != 0 {
			diff := c.Not(c.Eq(isWord(pos-1), isWord(pos)))
			if op&syntax.EmptyWordBoundary != 0 {
				r = c.And(r, diff)
			}
			if op&syntax.EmptyNoWordBoundary != 0 {
				r = c.And(r, c.Not(diff))
			}
		}
		return r
	}
	runeCond := func(inst *syntax.Inst, b *Term) *Term {
		switch inst.Op {
		case syntax.InstRuneAny:
			return c.True
		case syntax.InstRuneAnyNotNL:
			return c.Not(c.Eq(b, c.Const(8, '\n')))
		}
		rs := inst.Rune
		r := c.False
		one := func(x rune) {
			if x >= 0 && x < 0x80 {
				r = c.Or(r, c.Eq(b, c.Const(8, uint64(x))))
			}
		}
		if len(rs) == 1 {
			one(rs[0])
			if syntax.Flags(inst.Arg)&syntax.FoldCase != 0 {
				for r1 := unicode.SimpleFold(rs[0]); r1 != rs[0]; r1 = unicode.SimpleFold(r1) {
					one(r1)
				}
			}
			return r
		}
		for j := 0; j+1 < len(rs); j += 2 {
			lo, hi := rs[j], rs[j+1]
			if lo > 0x7f {
				continue
			}
			if hi > 0x7f {
				hi = 0x7f
			}
			if lo == hi {
				one(lo)
			} else {
				r = c.Or(r, c.And(c.Cmp(OpULe, c.Const(8, uint64(lo)), b), c.Cmp(OpULe, b, c.Const(8, uint64(hi)))))
			}
		}
		return r
	}
	matched := c.False
	cur := map[uint32]*Term{}  // consuming instructions waiting at the current position
	var add func(set map[uint32]*Term, seen map[[2]uint64]bool, pc uint32, cond *Term, pos int)
	add = func(set map[uint32]*Term, seen map[[2]uint64]bool, pc uint32, cond *Term, pos int) {
		if cond.IsConst() && cond.K == 0 {
			return
		}
		key := [2]uint64{uint64(pc), uint64(cond.ID)}
		if seen[key] {
			return
		}
		seen[key] = true
		inst := &prog.Inst[pc]
		switch inst.Op {
		case syntax.InstFail:
		case syntax.InstAlt, syntax.InstAltMatch:
			add(set, seen, inst.Out, cond, pos)
			add(set, seen, inst.Arg, cond, pos)
		case syntax.InstNop, syntax.InstCapture:
			add(set, seen, inst.Out, cond, pos)
		case syntax.InstEmptyWidth:
			add(set, seen, inst.Out, c.And(cond, emptyCond(syntax.EmptyOp(inst.Arg), pos)), pos)
		case syntax.InstMatch:
			matched = c.Or(matched, cond)
		default: // rune-consuming
			if old, ok := set[pc]; ok {
				set[pc] = c.Or(old, cond)
			} else {
				set[pc] = cond
			}
		}
	}
	for pos := 0; pos <= n; pos++ {
		// unanchored search: a match may start at every position
		add(cur, map[[2]uint64]bool{}, uint32(prog.Start), c.True, pos)
		if pos == n {
			break
		}
		next := map[uint32]*Term{}
		seen := map[[2]uint64]bool{}
		for pc := uint32(0); pc < uint32(len(prog.Inst)); pc++ { // deterministic order
			cond, ok := cur[pc]
			if !ok {
				continue
			}
			inst := &prog.Inst[pc]
			add(next, seen, inst.Out, c.And(cond, runeCond(inst, bt[pos])), pos+1)
		}
		cur = next
	}
	return boolVal(matched)
}
