package gosym

// Deterministic insertion-ordered map supporting symbolic keys.

import (
	"go/types"
)

type hashable interface {
	hash(t types.Type) int
	eq(t types.Type, x any) bool
}

type mapEntry struct {
	key, val value
	deleted  bool
	sym      bool
}

type mapV struct {
	keyType types.Type
	entries []*mapEntry
	idx     map[int][]*mapEntry
	symKeys int
	n       int
}

func newMapV(kt types.Type) *mapV {
	return &mapV{keyType: kt, idx: map[int][]*mapEntry{}}
}

func (m *mapV) len() int {
	if m == nil {
		return 0
	}
	return m.n
}

func (m *mapV) live() []*mapEntry {
	if m == nil {
		return nil
	}
	out := make([]*mapEntry, 0, m.n)
	for _, e := range m.entries {
		if !e.deleted {
			out = append(out, e)
		}
	}
	return out
}

// containsSym reports whether v contains a symbolic scalar.
func containsSym(v value) bool {
	switch v := v.(type) {
	case *Term:
		return true
	case symstr, opaqueStr:
		return true
	case structure:
		for _, f := range v {
			if containsSym(f) {
				return true
			}
		}
	case array:
		for _, f := range v {
			if containsSym(f) {
				return true
			}
		}
	case iface:
		return containsSym(v.v)
	case uniqH:
		return containsSym(v.v)
	}
	return false
}

// find returns the entry matching key, or nil. May fork (decision) on symbolic keys.
func (i *interpreter) mapFind(m *mapV, key value) *mapEntry {
	if m == nil || m.n == 0 {
		return nil
	}
	ksym := containsSym(key)
	if !ksym {
		h := hash(m.keyType, m.keyType, key)
		for _, e := range m.idx[h] {
			if !e.deleted && equals(m.keyType, key, e.key) {
				return e
			}
		}
		if m.symKeys == 0 {
			return nil
		}
	}
	var cands []*mapEntry
	var conds []*Term
	for _, e := range m.entries {
		if e.deleted {
			continue
		}
		if !ksym && !e.sym {
			continue // concrete vs concrete already decided by the index
		}
		c := i.symEquals(m.keyType, key, e.key)
		switch c := c.(type) {
		case bool:
			if c {
				return e
			}
		case *Term:
			cands = append(cands, e)
			conds = append(conds, c)
		}
	}
	if len(cands) == 0 {
		return nil
	}
	none := i.ctx.True
	for _, c := range conds {
		none = i.ctx.And(none, i.ctx.Not(c))
	}
	k := i.decide(append(conds, none), "mapkey")
	if k == len(cands) {
		return nil
	}
	return cands[k]
}

func (i *interpreter) mapInsert(m *mapV, key, v value) {
	if e := i.mapFind(m, key); e != nil {
		old := e.val
		e.val = v
		i.journalUndo(func() { e.val = old })
		return
	}
	e := &mapEntry{key: key, val: v, sym: containsSym(key)}
	m.entries = append(m.entries, e)
	m.n++
	h := 0
	if e.sym {
		m.symKeys++
	} else {
		h = hash(m.keyType, m.keyType, key)
		m.idx[h] = append(m.idx[h], e)
	}
	i.journalUndo(func() {
		m.entries = m.entries[:len(m.entries)-1]
		m.n--
		if e.sym {
			m.symKeys--
		} else {
			b := m.idx[h]
			m.idx[h] = b[:len(b)-1]
		}
	})
}

func (i *interpreter) mapDelete(m *mapV, key value) {
	e := i.mapFind(m, key)
	if e == nil {
		return
	}
	e.deleted = true
	m.n--
	if e.sym {
		m.symKeys--
	}
	i.journalUndo(func() {
		e.deleted = false
		m.n++
		if e.sym {
			m.symKeys++
		}
	})
}

func (i *interpreter) mapClear(m *mapV) {
	for _, e := range m.live() {
		e := e
		e.deleted = true
		m.n--
		if e.sym {
			m.symKeys--
		}
		i.journalUndo(func() {
			e.deleted = false
			m.n++
			if e.sym {
				m.symKeys++
			}
		})
	}
}

type mapVIter struct {
	i     *interpreter
	m     *mapV
	order []*mapEntry // fixed order (permuted) or nil for live walk
	pos   int
}

func (it *mapVIter) next() tuple {
	if it.order != nil {
		for it.pos < len(it.order) {
			e := it.order[it.pos]
			it.pos++
			if !e.deleted {
				return tuple{true, e.key, e.val}
			}
		}
		return tuple{false, nil, nil}
	}
	if it.m != nil {
		for it.pos < len(it.m.entries) {
			e := it.m.entries[it.pos]
			it.pos++
			if !e.deleted {
				return tuple{true, e.key, e.val}
			}
		}
	}
	return tuple{false, nil, nil}
}

// ---- channels as FIFO queues (single-threaded model) ----

type chanV struct {
	buf    []value
	cap    int
	closed bool
}

func (i *interpreter) chanSend(c *chanV, v value) {
	if c == nil {
		panic(pathEnd{"inconclusive", "send on nil channel (blocks forever)"})
	}
	if c.closed {
		panic(targetPanic{iface{i.runtimeErrorString, "send on closed channel"}})
	}
	c.buf = append(c.buf, v)
	i.journalUndo(func() { c.buf = c.buf[:len(c.buf)-1] })
}

func (i *interpreter) chanRecv(c *chanV, elem types.Type) (value, bool) {
	if c == nil {
		panic(pathEnd{"inconclusive", "receive from nil channel (blocks forever)"})
	}
	if len(c.buf) == 0 && !c.closed {
		i.runGoroutines()
	}
	if len(c.buf) > 0 {
		v := c.buf[0]
		old := c.buf
		c.buf = c.buf[1:]
		i.journalUndo(func() { c.buf = old })
		return v, true
	}
	if c.closed {
		return zero(elem), false
	}
	panic(pathEnd{"inconclusive", "receive on empty channel would block (no concurrency model)"})
}

func (i *interpreter) chanClose(c *chanV) {
	if c.closed {
		panic(targetPanic{iface{i.runtimeErrorString, "close of closed channel"}})
	}
	c.closed = true
	i.journalUndo(func() { c.closed = false })
}

// runGoroutines runs queued `go` calls to completion in FIFO order.
func (i *interpreter) runGoroutines() {
	ran := len(i.goq) > 0
	for len(i.goq) > 0 {
		f := i.goq[0]
		i.goq = i.goq[1:]
		f()
	}
	if ran {
		i.raceJoin()
	}
}
