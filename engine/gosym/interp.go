// Package gosym is a symbolic interpreter for Go SSA: concrete heap shape,
// symbolic scalars (SMT bit-vector terms), decision-prefix re-execution.
// It started from golang.org/x/tools/go/ssa/interp (BSD licence, The Go Authors)
// and keeps that interpreter's boxed value representation.
package gosym

import (
	"fmt"
	"go/token"
	"go/types"
	"os"
	"reflect"
	"runtime"
	"slices"
	"strings"
	"time"

	"golang.org/x/tools/go/ssa"
)

type continuation int

const (
	kNext continuation = iota
	kReturn
	kJump
	kStop // reached fr.stopAt (merge arm finished)
)

type Mode uint

const (
	DisableRecover Mode = 1 << iota
	EnableTracing
)

type methodSet map[string]*ssa.Function

// journal entry: either a slot write (addr,old) or an arbitrary undo function.
type jentry struct {
	addr *value
	old  value
	undo func()
}

// pathEnd is panicked to terminate the current path.
type pathEnd struct {
	kind string // "infeasible" | "violation" | "inconclusive" | "done"
	msg  string
}

// mergeAbort is panicked inside a merge arm when merging is impossible.
type mergeAbort struct{ why string }

// State of one interpreter instance (one per worker).
type interpreter struct {
	lastFn *ssa.Function // most recently entered function (diagnostics only)
	prog               *ssa.Program
	shared             *Program
	globals            map[*ssa.Global]*value
	mode               Mode
	reflectPackage     *ssa.Package
	errorMethods       methodSet
	rtypeMethods       methodSet
	runtimeErrorString types.Type
	sizes              types.Sizes

	// symbolic state
	ctx     *TermCtx
	solver  *Solver
	pc      []*Term
	log     []int64 // decision log (prefix followed, then extended)
	pos     int
	prefixN int // length of the prefix being replayed

	journal    []jentry
	journaling bool
	inMerge    int
	mergeDepth int
	armBudget  int64

	inited   map[*ssa.Package]int // 0 none, 1 running, 2 done, 3 tainted
	initing  int
	skipInit map[string]bool

	steps     int64
	stepLimit int64
	varCount  map[string]int
	vars      []varRec
	goq       []func()
	ufcache   map[string]value
	clockN    int
	lastClock *Term

	ex *Explorer // back pointer (work queue, stats)

	fnInstr map[*ssa.Function]int64
	stubHit map[string]int
	curPath *PathResult
	pdoms   map[*ssa.Function][]*ssa.BasicBlock
	tmp     map[string]any
	tmpPersist map[string]any
	race    *raceMon
	mergeSites map[*ssa.If]*[2]int
	fresh   []rng
	model     map[string]uint64
	modelMemo map[int]uint64
	modelHits int
	obs     []obsRec
	whys    []string
	pathNo  int
	expectWhys []string
	restTop *frame
	lastAbort string
}

type varRec struct {
	Name string
	W    uint8
}

type deferred struct {
	fn    value
	args  []value
	instr *ssa.Defer
	tail  *deferred
}

type frame struct {
	i                *interpreter
	caller           *frame
	fn               *ssa.Function
	block, prevBlock *ssa.BasicBlock
	env              map[ssa.Value]value
	locals           []value
	defers           *deferred
	result           value
	panicking        bool
	panic            any
	phitemps         []value
	stopAt           *ssa.BasicBlock
	skipPhis         bool
	pending          *pendingRet
}

func (fr *frame) get(key ssa.Value) value {
	switch key := key.(type) {
	case nil:
		return nil
	case *ssa.Function, *ssa.Builtin:
		return key
	case *ssa.Const:
		return constValue(key)
	case *ssa.Global:
		r, ok := fr.i.globals[key]
		if !ok {
			// lazily allocated (some packages have huge table globals nobody touches)
			cell := make([]value, 1)
			cell[0] = zero(mustDeref(key.Type()))
			r = &cell[0]
			fr.i.globals[key] = r
		}
		if key.Pkg != nil {
			fr.i.ensureInit(key.Pkg)
		}
		return r
	}
	if r, ok := fr.env[key]; ok {
		return r
	}
	panic(fmt.Sprintf("get: no value for %T: %v", key, key.Name()))
}

// write performs a journaled slot write.
func (i *interpreter) write(addr *value, v value) {
	if i.race != nil && i.race.on {
		i.raceNote(addr, true, nil)
	}
	if i.journaling {
		i.journal = append(i.journal, jentry{addr: addr, old: *addr})
	}
	*addr = v
}

func (i *interpreter) journalUndo(f func()) {
	if i.journaling {
		i.journal = append(i.journal, jentry{undo: f})
	}
}

func (i *interpreter) rollback(mark int) {
	for k := len(i.journal) - 1; k >= mark; k-- {
		e := i.journal[k]
		if e.undo != nil {
			e.undo()
		} else {
			*e.addr = e.old
		}
	}
	i.journal = i.journal[:mark]
}

func isPathCtl(p any) bool {
	switch p.(type) {
	case pathEnd, mergeAbort:
		return true
	}
	return false
}

func (fr *frame) runDefer(d *deferred) {
	var ok bool
	defer func() {
		if !ok {
			p := recover()
			if isPathCtl(p) {
				panic(p)
			}
			fr.panicking = true
			fr.panic = p
		}
	}()
	call(fr.i, fr, d.instr.Pos(), d.fn, d.args)
	ok = true
}

func (fr *frame) runDefers() {
	for d := fr.defers; d != nil; d = d.tail {
		fr.runDefer(d)
	}
	fr.defers = nil
	if fr.panicking {
		panic(fr.panic)
	}
}

func lookupMethod(i *interpreter, typ types.Type, meth *types.Func) *ssa.Function {
	switch typ {
	case rtypeType:
		return i.rtypeMethods[meth.Id()]
	case errorType:
		return i.errorMethods[meth.Id()]
	}
	return i.prog.LookupMethod(typ, meth.Pkg(), meth.Name())
}

func (fr *frame) jumpTo(b *ssa.BasicBlock) continuation {
	fr.prevBlock, fr.block = fr.block, b
	if fr.stopAt != nil && b == fr.stopAt {
		return kStop
	}
	return kJump
}

func visitInstr(fr *frame, instr ssa.Instruction) continuation {
	i := fr.i
	switch instr := instr.(type) {
	case *ssa.DebugRef:
		// no-op

	case *ssa.UnOp:
		fr.env[instr] = i.unop(instr, fr.get(instr.X))

	case *ssa.BinOp:
		fr.env[instr] = i.binop(instr.Op, instr.X.Type(), fr.get(instr.X), fr.get(instr.Y))

	case *ssa.Call:
		fn, args := prepareCall(fr, &instr.Call)
		if fn == nil { // stubbed interface method on a dummy
			fr.env[instr] = zeroResult(instr.Call.Signature().Results())
		} else {
			fr.env[instr] = call(i, fr, instr.Pos(), fn, args)
		}

	case *ssa.ChangeInterface:
		fr.env[instr] = fr.get(instr.X)

	case *ssa.ChangeType:
		fr.env[instr] = fr.get(instr.X)

	case *ssa.Convert:
		fr.env[instr] = i.conv(instr.Type(), instr.X.Type(), fr.get(instr.X))

	case *ssa.SliceToArrayPointer:
		fr.env[instr] = sliceToArrayPointer(instr.Type(), instr.X.Type(), fr.get(instr.X))

	case *ssa.MakeInterface:
		fr.env[instr] = iface{t: instr.X.Type(), v: fr.get(instr.X)}

	case *ssa.Extract:
		fr.env[instr] = fr.get(instr.Tuple).(tuple)[instr.Index]

	case *ssa.Slice:
		fr.env[instr] = i.slice(fr.get(instr.X), fr.get(instr.Low), fr.get(instr.High), fr.get(instr.Max))

	case *ssa.Return:
		switch len(instr.Results) {
		case 0:
		case 1:
			fr.result = fr.get(instr.Results[0])
		default:
			var res []value
			for _, r := range instr.Results {
				res = append(res, fr.get(r))
			}
			fr.result = tuple(res)
		}
		fr.block = nil
		if fr.pending != nil {
			fr.resolvePending()
		}
		return kReturn

	case *ssa.RunDefers:
		fr.runDefers()

	case *ssa.Panic:
		panic(targetPanic{fr.get(instr.X)})

	case *ssa.Send:
		i.chanSend(fr.get(instr.Chan).(*chanV), fr.get(instr.X))

	case *ssa.Store:
		if sp, ok := fr.get(instr.Addr).(symPtr); ok {
			i.symStore(sp, fr.get(instr.Val))
			break
		}
		i.store(mustDeref(instr.Addr.Type()), fr.get(instr.Addr).(*value), fr.get(instr.Val))

	case *ssa.If:
		c := fr.get(instr.Cond)
		succ := 1
		switch c := c.(type) {
		case bool:
			if c {
				succ = 0
			}
		case *Term:
			r, merged := fr.symbolicIf(instr, c)
			if merged != kNext {
				return merged
			}
			if r {
				succ = 0
			}
		default:
			panic(fmt.Sprintf("If on %T", c))
		}
		return fr.jumpTo(fr.block.Succs[succ])

	case *ssa.Jump:
		return fr.jumpTo(fr.block.Succs[0])

	case *ssa.Defer:
		fn, args := prepareCall(fr, &instr.Call)
		defers := &fr.defers
		if into := fr.get(instr.DeferStack); into != nil {
			defers = into.(**deferred)
		}
		if fn == nil {
			break
		}
		*defers = &deferred{fn: fn, args: args, instr: instr, tail: *defers}

	case *ssa.Go:
		fn, args := prepareCall(fr, &instr.Call)
		if fn != nil {
			pos := instr.Pos()
			gid := 0
			if i.race != nil && i.race.on {
				i.race.nextG++
				gid = i.race.nextG
			}
			i.goq = append(i.goq, func() {
				if i.race != nil && i.race.on {
					saved := i.race.curG
					i.race.curG = gid
					defer func() { i.race.curG = saved }()
				}
				call(i, nil, pos, fn, args)
			})
		}

	case *ssa.MakeChan:
		fr.env[instr] = &chanV{cap: int(i.concreteInt(fr.get(instr.Size)))}

	case *ssa.Alloc:
		var addr *value
		if instr.Heap {
			cell := make([]value, 1)
			addr = &cell[0]
			fr.env[instr] = addr
			*addr = zero(mustDeref(instr.Type()))
			i.noteRange(cell)
			i.noteAlloc(*addr)
		} else {
			addr = fr.env[instr].(*value)
			i.write(addr, zero(mustDeref(instr.Type())))
		}

	case *ssa.MakeSlice:
		n := i.concreteInt(fr.get(instr.Cap))
		if n < 0 || n > 1<<24 {
			panic(fmt.Sprintf("makeslice: cap out of range: %d", n))
		}
		slice := make([]value, n)
		tElt := instr.Type().Underlying().(*types.Slice).Elem()
		for k := range slice {
			slice[k] = zero(tElt)
			i.noteAlloc(slice[k])
		}
		i.noteRange(slice)
		fr.env[instr] = slice[:i.concreteInt(fr.get(instr.Len))]

	case *ssa.MakeMap:
		fr.env[instr] = newMapV(instr.Type().Underlying().(*types.Map).Key())

	case *ssa.Range:
		fr.env[instr] = i.rangeIter(fr.get(instr.X))

	case *ssa.Next:
		fr.env[instr] = fr.get(instr.Iter).(iter).next()

	case *ssa.FieldAddr:
		p := fr.get(instr.X).(*value)
		if p == nil {
			panic(runtimeError("invalid memory address or nil pointer dereference"))
		}
		fr.env[instr] = &(*p).(structure)[instr.Field]

	case *ssa.Field:
		fr.env[instr] = fr.get(instr.X).(structure)[instr.Field]

	case *ssa.IndexAddr:
		x := fr.get(instr.X)
		idx := fr.get(instr.Index)
		_, symIdx := idx.(*Term)
		scalarElem := false
		if symIdx {
			if _, _, fl, ok := basicInfo(mustDeref(instr.Type())); ok && !fl {
				scalarElem = true
			}
		}
		switch x := x.(type) {
		case []value:
			if symIdx && scalarElem && len(x) > 0 {
				i.boundsCheck(idx.(*Term), len(x))
				fr.env[instr] = symPtr{x, idx.(*Term)}
				break
			}
			fr.env[instr] = &x[i.indexInt(idx, len(x))]
		case *value: // *array
			if x == nil {
				panic(runtimeError("invalid memory address or nil pointer dereference"))
			}
			a := (*x).(array)
			if symIdx && scalarElem && len(a) > 0 {
				i.boundsCheck(idx.(*Term), len(a))
				fr.env[instr] = symPtr{[]value(a), idx.(*Term)}
				break
			}
			fr.env[instr] = &a[i.indexInt(idx, len(a))]
		default:
			panic(fmt.Sprintf("unexpected x type in IndexAddr: %T", x))
		}

	case *ssa.Index:
		x := fr.get(instr.X)
		idx := fr.get(instr.Index)
		switch x := x.(type) {
		case array:
			fr.env[instr] = i.indexValue([]value(x), idx)
		case string:
			if t, ok := idx.(*Term); ok {
				fr.env[instr] = i.indexValue(strBytes(x), t)
			} else {
				fr.env[instr] = x[asInt64(idx)]
			}
		case symstr:
			fr.env[instr] = i.indexValue(x.b, idx)
		default:
			panic(fmt.Sprintf("unexpected x type in Index: %T", x))
		}

	case *ssa.Lookup:
		fr.env[instr] = i.lookup(instr, fr.get(instr.X), fr.get(instr.Index))

	case *ssa.MapUpdate:
		m := fr.get(instr.Map).(*mapV)
		if m == nil {
			panic(runtimeError("assignment to entry in nil map"))
		}
		i.mapInsert(m, fr.get(instr.Key), fr.get(instr.Value))

	case *ssa.TypeAssert:
		fr.env[instr] = typeAssert(instr, fr.get(instr.X).(iface))

	case *ssa.MakeClosure:
		var bindings []value
		for _, binding := range instr.Bindings {
			bindings = append(bindings, fr.get(binding))
		}
		fr.env[instr] = &closure{instr.Fn.(*ssa.Function), bindings}

	case *ssa.Phi:
		panic("unreachable: phi")

	case *ssa.Select:
		fr.env[instr] = i.doSelect(instr, fr)

	default:
		panic(fmt.Sprintf("unexpected instruction: %T", instr))
	}
	return kNext
}

type runtimeError string

func (e runtimeError) Error() string { return "runtime error: " + string(e) }
func (e runtimeError) RuntimeError() {}

func zeroResult(res *types.Tuple) value {
	switch res.Len() {
	case 0:
		return nil
	case 1:
		return zero(res.At(0).Type())
	}
	return zero(res)
}

// prepareCall determines the function value and argument values for a call.
// fn == nil means "stubbed: produce zero results".
func prepareCall(fr *frame, call *ssa.CallCommon) (fn value, args []value) {
	v := fr.get(call.Value)
	if call.Method == nil {
		fn = v
	} else {
		recv := v.(iface)
		if p := call.Method.Pkg(); p != nil && fr.i.shared.isStubPkg(p.Path()) {
			fr.i.stubHit[p.Path()]++
			return nil, nil
		}
		if recv.t == nil {
			panic(runtimeError("invalid memory address or nil pointer dereference (method invoked on nil interface " + call.Method.FullName() + ")"))
		}
		if f := lookupMethod(fr.i, recv.t, call.Method); f == nil {
			panic(fmt.Sprintf("method set for dynamic type %v does not contain %s", recv.t, call.Method))
		} else {
			fn = f
		}
		args = append(args, recv.v)
	}
	for _, arg := range call.Args {
		args = append(args, fr.get(arg))
	}
	return
}

func call(i *interpreter, caller *frame, callpos token.Pos, fn value, args []value) value {
	switch fn := fn.(type) {
	case *ssa.Function:
		if fn == nil {
			panic(runtimeError("invalid memory address or nil pointer dereference (call of nil func)"))
		}
		return callSSA(i, caller, callpos, fn, args, nil)
	case *closure:
		return callSSA(i, caller, callpos, fn.Fn, args, fn.Env)
	case *ssa.Builtin:
		return callBuiltin(caller, fn, args)
	}
	panic(fmt.Sprintf("cannot call %T", fn))
}

func loc(fset *token.FileSet, pos token.Pos) string {
	if pos == token.NoPos {
		return ""
	}
	return " at " + fset.Position(pos).String()
}

func fnPkg(fn *ssa.Function) *ssa.Package {
	if fn.Pkg != nil {
		return fn.Pkg
	}
	if o := fn.Origin(); o != nil && o.Pkg != nil {
		return o.Pkg
	}
	if p := fn.Parent(); p != nil {
		return fnPkg(p)
	}
	return nil
}

func callSSA(i *interpreter, caller *frame, callpos token.Pos, fn *ssa.Function, args []value, env []value) value {
	if i.mode&EnableTracing != 0 {
		fset := fn.Prog.Fset
		fmt.Fprintf(os.Stderr, "Entering %s%s.\n", fn, loc(fset, fn.Pos()))
		defer fmt.Fprintf(os.Stderr, "Leaving %s.\n", fn)
	}
	fr := &frame{i: i, caller: caller, fn: fn}
	i.lastFn = fn
	pkg := fnPkg(fn)
	if fn.Parent() == nil {
		if fn.Synthetic == "package initializer" {
			if i.initing > 0 && (caller != nil) {
				// imports are initialised lazily on first use
				return nil
			}
		}
		name := fn.String()
		if so := symOnly[name]; so != nil {
			if _, sym := args[0].(*Term); sym {
				i.stubHit[name+" (direct encoding)"]++
				return so(fr, args)
			}
		} else if so := symOnlyStr[name]; so != nil && len(args) > 1 && hasSymBytes(args[1]) {
			i.stubHit[name+" (symbolic NFA)"]++
			return so(fr, args)
		} else if ext := i.shared.lookupExternal(fn, name); ext != nil {
			i.stubHit[name]++
			return ext(fr, args)
		}
		if pkg != nil && i.shared.isStubPkg(pkg.Pkg.Path()) {
			i.stubHit[pkg.Pkg.Path()]++
			return i.stubCall(fr, fn, args)
		}
		if fn.Blocks == nil {
			if o := fn.Origin(); o != nil && o != fn && o.Blocks != nil {
				panic("uninstantiated generic: " + name)
			}
			panic(unsupported("no code for function: " + name))
		}
	}
	if pkg != nil && fn.Synthetic != "package initializer" {
		i.ensureInit(pkg)
	}

	if fn.TypeParams().Len() > 0 && len(fn.TypeArgs()) == 0 {
		panic("interp requires InstantiateGenerics to execute generics")
	}

	fr.env = make(map[ssa.Value]value, 16)
	fr.block = fn.Blocks[0]
	fr.locals = make([]value, len(fn.Locals))
	for k, l := range fn.Locals {
		fr.locals[k] = zero(mustDeref(l.Type()))
		fr.env[l] = &fr.locals[k]
		i.noteAlloc(fr.locals[k])
	}
	i.noteRange(fr.locals)
	for k, p := range fn.Params {
		fr.env[p] = args[k]
	}
	for k, fv := range fn.FreeVars {
		fr.env[fv] = env[k]
	}
	for fr.block != nil {
		runFrame(fr)
	}
	for k := range fr.locals {
		fr.locals[k] = bad{}
	}
	return fr.result
}

type unsupported string

// runFrame executes SSA instructions starting at fr.block until return/panic.
// Returns kStop if fr.stopAt was reached.
func runFrame(fr *frame) (cont continuation) {
	defer func() {
		if fr.block == nil || cont == kStop {
			return
		}
		p := recover()
		if isPathCtl(p) {
			panic(p)
		}
		if u, ok := p.(unsupported); ok {
			panic(pathEnd{"inconclusive", "unsupported: " + string(u) + " in " + fr.fn.String()})
		}
		if s, ok := p.(string); ok && fr.i.initing == 0 {
			// interpreter-internal failure, not a target panic
			buf := make([]byte, 4096)
			buf = buf[:runtime.Stack(buf, false)]
			panic(pathEnd{"inconclusive", "interp: " + s + " in " + fr.fn.String() + "\n" + string(buf)})
		}
		if re, ok := p.(runtime.Error); ok {
			if _, mine := p.(runtimeError); !mine && fr.i.initing == 0 {
				msg := re.Error()
				// host-level nil deref / index errors from the boxed representation are target panics;
				// type assertion failures inside the interpreter are engine bugs.
				if strings.Contains(msg, "interface conversion") {
					buf := make([]byte, 4096)
					buf = buf[:runtime.Stack(buf, false)]
					panic(pathEnd{"inconclusive", "interp: " + msg + " in " + fr.fn.String() + "\n" + string(buf)})
				}
			}
		}
		fr.panicking = true
		fr.panic = p
		fr.runDefers()
		fr.block = fr.fn.Recover
	}()

	i := fr.i
	for {
		var nonPhis []ssa.Instruction
		if fr.skipPhis {
			fr.skipPhis = false
			nonPhis = firstNonPhis(fr.block)
		} else {
			nonPhis = executePhis(fr)
		}
		n := int64(len(nonPhis))
		i.steps += n
		i.fnInstr[fr.fn] += n
		if i.steps > i.stepLimit && i.initing == 0 {
			panic(pathEnd{"inconclusive", fmt.Sprintf("step limit %d exceeded (unwinding bound) in %s", i.stepLimit, fr.fn)})
		}
		if i.inMerge > 0 {
			i.armBudget -= n
			if i.armBudget < 0 {
				panic(mergeAbort{"arm budget"})
			}
		}
		for _, instr := range nonPhis {
			if i.mode&EnableTracing != 0 {
				if v, ok := instr.(ssa.Value); ok {
					fmt.Fprintln(os.Stderr, "\t", v.Name(), "=", instr)
				} else {
					fmt.Fprintln(os.Stderr, "\t", instr)
				}
			}
			switch visitInstr(fr, instr) {
			case kReturn:
				return kReturn
			case kStop:
				return kStop
			}
		}
	}
}

func firstNonPhis(b *ssa.BasicBlock) []ssa.Instruction {
	for k, instr := range b.Instrs {
		if _, ok := instr.(*ssa.Phi); !ok {
			return b.Instrs[k:]
		}
	}
	return nil
}

func executePhis(fr *frame) []ssa.Instruction {
	firstNonPhi := -1
	for i, instr := range fr.block.Instrs {
		if _, ok := instr.(*ssa.Phi); !ok {
			firstNonPhi = i
			break
		}
	}
	nonPhis := fr.block.Instrs[firstNonPhi:]
	if firstNonPhi > 0 {
		phis := fr.block.Instrs[:firstNonPhi]
		predIndex := slices.Index(fr.block.Preds, fr.prevBlock)
		fr.phitemps = fr.phitemps[:0]
		for _, phi := range phis {
			phi := phi.(*ssa.Phi)
			fr.phitemps = append(fr.phitemps, fr.get(phi.Edges[predIndex]))
		}
		for i, phi := range phis {
			fr.env[phi.(*ssa.Phi)] = fr.phitemps[i]
		}
	}
	return nonPhis
}

func doRecover(caller *frame) value {
	if caller.i.mode&DisableRecover == 0 &&
		caller != nil && !caller.panicking &&
		caller.caller != nil && caller.caller.panicking {
		caller.caller.panicking = false
		p := caller.caller.panic
		caller.caller.panic = nil
		switch p := p.(type) {
		case targetPanic:
			return p.v
		case runtime.Error:
			return iface{caller.i.runtimeErrorString, p.Error()}
		case string:
			return iface{caller.i.runtimeErrorString, p}
		default:
			panic(fmt.Sprintf("unexpected panic type %T in target call to recover()", p))
		}
	}
	return iface{}
}

// ensureInit runs pkg's initializer on first use (lazy, once, un-journaled, concrete).
func (i *interpreter) ensureInit(pkg *ssa.Package) {
	if st := i.inited[pkg]; st != 0 {
		return
	}
	path := pkg.Pkg.Path()
	if i.shared.isStubPkg(path) || i.shared.skipInit[path] {
		i.inited[pkg] = 2
		return
	}
	initFn := pkg.Func("init")
	if initFn == nil {
		i.inited[pkg] = 2
		return
	}
	i.inited[pkg] = 1
	t0 := time.Now()
	defer func() {
		if d := time.Since(t0); d > 300*time.Millisecond && os.Getenv("GOSYM_PROGRESS") != "" {
			fmt.Fprintf(os.Stderr, "init %s took %v\n", path, d)
		}
	}()
	savedJ, savedMerge, savedSteps := i.journaling, i.inMerge, i.steps
	i.journaling = false
	i.inMerge = 0
	i.initing++
	func() {
		defer func() {
			if p := recover(); p != nil {
				i.inited[pkg] = 3
				msg := fmt.Sprint(p)
				if tp, ok := p.(targetPanic); ok {
					msg = "panic: " + toString(tp.v)
				}
				if pe, ok := p.(pathEnd); ok {
					msg = pe.kind + ": " + pe.msg
				}
				if len(msg) > 300 {
					msg = msg[:300]
				}
				i.shared.noteTaint(path, msg)
			}
		}()
		call(i, nil, token.NoPos, initFn, nil)
	}()
	i.initing--
	i.journaling, i.inMerge, i.steps = savedJ, savedMerge, savedSteps
	if i.inited[pkg] == 1 {
		i.inited[pkg] = 2
	}
}

func newInterpreter(sh *Program) *interpreter {
	i := &interpreter{
		prog:      sh.Prog,
		shared:    sh,
		globals:   make(map[*ssa.Global]*value),
		sizes:     sh.Sizes,
		ctx:       NewTermCtx(),
		inited:    map[*ssa.Package]int{},
		fnInstr:   map[*ssa.Function]int64{},
		stubHit:   map[string]int{},
		varCount:  map[string]int{},
		pdoms:     map[*ssa.Function][]*ssa.BasicBlock{},
		stepLimit: 20_000_000,
		tmpPersist: map[string]any{},
	}
	if runtimePkg := i.prog.ImportedPackage("runtime"); runtimePkg != nil {
		i.runtimeErrorString = runtimePkg.Type("errorString").Object().Type()
	}
	initReflect(i)
	return i
}

var _ = reflect.TypeOf
