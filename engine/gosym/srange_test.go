package gosym

import (
	"math/rand"
	"testing"
)

// The simplifier's interval-based rules against direct evaluation on random values.
func TestSignedRangeRules(t *testing.T) {
	rng := rand.New(rand.NewSource(1))
	for iter := 0; iter < 20000; iter++ {
		c := NewTermCtx()
		w1 := uint8(1 + rng.Intn(40))
		w2 := uint8(1 + rng.Intn(40))
		v1 := c.Var("a", w1)
		v2 := c.Var("b", w2)
		ks := []int64{1, 2, 3, 7, 10, 1000, 1000000000, 1 << 20, 1<<31 - 1, -3, -1000000000}
		k := ks[rng.Intn(len(ks))]
		k2 := ks[rng.Intn(len(ks))]
		off := int64(rng.Intn(2000) - 1000)
		if rng.Intn(3) == 0 {
			off = rng.Int63n(1<<40) - 1<<39
		}
		x := c.BV(OpBVAdd, c.ZExt(v1, 64), c.Const(64, uint64(off)))
		y := c.BV(OpBVSub, c.ZExt(v2, 64), c.Const(64, uint64(int64(rng.Intn(100)))))
		a := uint64(rng.Int63()) & mask(w1)
		b := uint64(rng.Int63()) & mask(w2)
		model := map[string]uint64{"a": a, "b": b}
		xv, _ := evalTerm(x, model, map[int]uint64{})
		yv, _ := evalTerm(y, model, map[int]uint64{})
		xm := c.BV(OpBVMul, x, c.Const(64, uint64(k)))
		ym := c.BV(OpBVMul, y, c.Const(64, uint64(k)))
		xmv := int64(xv) * k
		ymv := int64(yv) * k
		type tc struct {
			name string
			t    *Term
			want uint64
		}
		b2u := func(b bool) uint64 {
			if b {
				return 1
			}
			return 0
		}
		var cases []tc
		if k2 != 0 {
			if !(xmv == -1<<63 && k2 == -1) {
				cases = append(cases, tc{"sdiv", c.BV(OpBVSDiv, xm, c.Const(64, uint64(k2))), uint64(xmv / k2)})
				cases = append(cases, tc{"srem", c.BV(OpBVSRem, xm, c.Const(64, uint64(k2))), uint64(xmv % k2)})
			}
			cases = append(cases, tc{"udiv", c.BV(OpBVUDiv, xm, c.Const(64, uint64(k2))), uint64(xmv) / uint64(k2)})
			cases = append(cases, tc{"urem", c.BV(OpBVURem, xm, c.Const(64, uint64(k2))), uint64(xmv) % uint64(k2)})
		}
		cases = append(cases, tc{"slt", c.Cmp(OpSLt, xm, ym), b2u(xmv < ymv)})
		cases = append(cases, tc{"sle", c.Cmp(OpSLe, xm, ym), b2u(xmv <= ymv)})
		kc := int64(rng.Intn(50)-25) * k
		cases = append(cases, tc{"slt-const", c.Cmp(OpSLt, xm, c.Const(64, uint64(kc))), b2u(xmv < kc)})
		cases = append(cases, tc{"sle-const", c.Cmp(OpSLe, c.Const(64, uint64(kc)), ym), b2u(kc <= ymv)})
		cases = append(cases, tc{"slt-xy", c.Cmp(OpSLt, x, y), b2u(int64(xv) < int64(yv))})
		// linear combinations of multiples: -(x*k + 5k) and y*k - x*(3k)
		if k > 0 {
			lin := c.BVNeg(c.BV(OpBVAdd, xm, c.Const(64, uint64(5*k))))
			linv := -(xmv + 5*k)
			cases = append(cases, tc{"lin-sdiv", c.BV(OpBVSDiv, lin, c.Const(64, uint64(k))), uint64(linv / k)})
			cases = append(cases, tc{"lin-srem", c.BV(OpBVSRem, lin, c.Const(64, uint64(k))), uint64(linv % k)})
			lin2 := c.BV(OpBVSub, ym, c.BV(OpBVMul, x, c.Const(64, uint64(3*k))))
			lin2v := ymv - int64(xv)*3*k
			cases = append(cases, tc{"lin2-sdiv", c.BV(OpBVSDiv, lin2, c.Const(64, uint64(k))), uint64(lin2v / k)})
			cases = append(cases, tc{"lin2-srem", c.BV(OpBVSRem, lin2, c.Const(64, uint64(k))), uint64(lin2v % k)})
		}
		// a < a+d
		dterm := c.BV(OpBVSub, c.ZExt(v2, 64), c.Const(64, 7))
		dv, _ := evalTerm(dterm, model, map[int]uint64{})
		sum := c.BV(OpBVAdd, x, dterm)
		cases = append(cases, tc{"lt-sum", c.Cmp(OpSLt, x, sum), b2u(int64(xv) < int64(xv)+int64(dv))})
		cases = append(cases, tc{"le-sum", c.Cmp(OpSLe, sum, x), b2u(int64(xv)+int64(dv) <= int64(xv))})
		// narrow widths
		n1 := c.BV(OpBVMul, c.ZExt(v1, 48), c.Const(48, uint64(k)&mask(48)))
		n1v := signExt((a*uint64(k))&mask(48), 48)
		if k2 > 0 {
			cases = append(cases, tc{"sdiv48", c.BV(OpBVSDiv, n1, c.Const(48, uint64(k2))), uint64(n1v/k2) & mask(48)})
			cases = append(cases, tc{"srem48", c.BV(OpBVSRem, n1, c.Const(48, uint64(k2))), uint64(n1v%k2) & mask(48)})
		}
		for _, cs := range cases {
			got, ok := evalTerm(cs.t, model, map[int]uint64{})
			if !ok || got != cs.want {
				t.Fatalf("iter %d %s: k=%d k2=%d off=%d a=%d(w%d) b=%d(w%d): got %d want %d term %v", iter, cs.name, k, k2, off, a, w1, b, w2, int64(got), int64(cs.want), cs.t)
			}
		}
	}
}
