package gosym

import (
	"fmt"
	"go/types"
)

// Direct encodings of math/bits kernels on symbolic arguments (the library versions use
// lookup tables and de Bruijn multiplications, which are needlessly hard for the solver).
// Concrete arguments fall through to the real Go source.

func init() {
	for _, w := range []uint8{8, 16, 32, 64} {
		w := w
		sfx := fmt.Sprint(w)
		externals["math/bits.OnesCount"+sfx] = nil
		externals["math/bits.TrailingZeros"+sfx] = nil
		externals["math/bits.LeadingZeros"+sfx] = nil
		externals["math/bits.Len"+sfx] = nil
		delete(externals, "math/bits.OnesCount"+sfx)
		delete(externals, "math/bits.TrailingZeros"+sfx)
		delete(externals, "math/bits.LeadingZeros"+sfx)
		delete(externals, "math/bits.Len"+sfx)
		symOnly["math/bits.OnesCount"+sfx] = func(fr *frame, a []value) value { return fr.i.bitsOnes(a[0].(*Term)) }
		symOnly["math/bits.TrailingZeros"+sfx] = func(fr *frame, a []value) value { return fr.i.bitsTZ(a[0].(*Term)) }
		symOnly["math/bits.LeadingZeros"+sfx] = func(fr *frame, a []value) value { return fr.i.bitsLZ(a[0].(*Term)) }
		symOnly["math/bits.Len"+sfx] = func(fr *frame, a []value) value {
			in := fr.i
			lz, _ := in.termOf(in.bitsLZ(a[0].(*Term)))
			return fromTerm(types.Typ[types.Int], in.ctx.BV(OpBVSub, in.ctx.Const(64, uint64(w)), lz))
		}
	}
	symOnly["math/bits.OnesCount"] = symOnly["math/bits.OnesCount64"]
	symOnly["math/bits.TrailingZeros"] = symOnly["math/bits.TrailingZeros64"]
	symOnly["math/bits.LeadingZeros"] = symOnly["math/bits.LeadingZeros64"]
	symOnly["math/bits.Len"] = symOnly["math/bits.Len64"]
}

// symOnly externals apply only when the first argument is symbolic.
var symOnly = map[string]externalFn{}

func (in *interpreter) bitsOnes(x *Term) value {
	c := in.ctx
	acc := c.Const(64, 0)
	for k := uint8(0); k < x.W; k++ {
		acc = c.BV(OpBVAdd, acc, c.ZExt(c.Extract(x, k, k), 64))
	}
	return fromTerm(types.Typ[types.Int], acc)
}

func (in *interpreter) bitsTZ(x *Term) value {
	c := in.ctx
	res := c.Const(64, uint64(x.W))
	for k := int(x.W) - 1; k >= 0; k-- {
		bit := c.Eq(c.Extract(x, uint8(k), uint8(k)), c.Const(1, 1))
		res = c.Ite(bit, c.Const(64, uint64(k)), res)
	}
	return fromTerm(types.Typ[types.Int], res)
}

func (in *interpreter) bitsLZ(x *Term) value {
	c := in.ctx
	res := c.Const(64, uint64(x.W))
	for k := 0; k < int(x.W); k++ {
		bit := c.Eq(c.Extract(x, uint8(k), uint8(k)), c.Const(1, 1))
		res = c.Ite(bit, c.Const(64, uint64(int(x.W)-1-k)), res)
	}
	return fromTerm(types.Typ[types.Int], res)
}
