// gosym: symbolic execution of Go harnesses loaded from a source tree with overlays.
package main

import (
	"encoding/json"
	"flag"
	"fmt"
	"os"
	"runtime/pprof"
	"sort"
	"strings"
	"time"

	"verif/engine/gosym"
)

type HarnessJob struct {
	Pkg            string           `json:"pkg"`  // import path
	Func           string           `json:"func"` // function name
	Params         map[string]int64 `json:"params"`
	Workers        int              `json:"workers"`
	QueryTimeoutMs int              `json:"query_timeout_ms"`
	StepLimit      int64            `json:"step_limit"`
	MaxPaths       int              `json:"max_paths"`
	PermuteRanges  int              `json:"permute_ranges"`
	NoMerge        bool             `json:"no_merge"`
	Solver         string           `json:"solver"`
	TimeoutS       int              `json:"timeout_s"`
	MaxViolations  int              `json:"max_violations"`
	Label          string           `json:"label"`
	SampleModels   int              `json:"sample_models"`
}

type Job struct {
	Dir       string            `json:"dir"`
	Patterns  []string          `json:"patterns"`
	Tags      []string          `json:"tags"`
	Env       []string          `json:"env"`
	Overlay   map[string]string `json:"overlay"` // virtual path -> real file
	Harnesses []HarnessJob      `json:"harnesses"`
	Trace     bool              `json:"trace"`
}

type PathOut struct {
	Kind     string            `json:"kind"`
	Site     string            `json:"site,omitempty"`
	Msg      string            `json:"msg,omitempty"`
	Model    map[string]uint64 `json:"model,omitempty"`
	Log      []int64           `json:"log,omitempty"`
	Steps    int64             `json:"steps"`
	Sample   string            `json:"pc_sample,omitempty"`
	Observes []string          `json:"observes,omitempty"`
	Sites    map[string]int    `json:"sites,omitempty"`
}

type HarnessOut struct {
	Label      string           `json:"label"`
	Pkg        string           `json:"pkg"`
	Func       string           `json:"func"`
	Params     map[string]int64 `json:"params"`
	Paths      int              `json:"paths"`
	Decisions  int              `json:"decisions"`
	Kinds      map[string]int   `json:"kinds"`
	Sites      map[string]int   `json:"sites"`
	Queries    int              `json:"queries"`
	Sat        int              `json:"sat"`
	Unsat      int              `json:"unsat"`
	Unknown    int              `json:"unknown"`
	SolverErrs int              `json:"solver_errors"`
	SolverSec  float64          `json:"solver_s"`
	WallSec    float64          `json:"wall_s"`
	Merges     int              `json:"merges"`
	MergeFails int              `json:"merge_fails"`
	Truncated  bool             `json:"truncated"`
	FnInstr    map[string]int64 `json:"functions_encoded"`
	StubHit    map[string]int   `json:"stubs_hit"`
	Violations []PathOut        `json:"violations"`
	Inconcl    []PathOut        `json:"inconclusive"`
	Samples    []PathOut        `json:"samples"`
	Error      string           `json:"error,omitempty"`
}

type Out struct {
	LoadSec   float64      `json:"load_s"`
	Packages  int          `json:"packages"`
	Taints    []string     `json:"init_taints"`
	Harnesses []HarnessOut `json:"harnesses"`
	Error     string       `json:"error,omitempty"`
}

func main() {
	jobFile := flag.String("job", "", "job JSON file")
	outFile := flag.String("out", "", "result JSON file")
	flag.Parse()
	if pf := os.Getenv("GOSYM_CPUPROFILE"); pf != "" {
		f, _ := os.Create(pf)
		pprof.StartCPUProfile(f)
		defer pprof.StopCPUProfile()
	}
	var job Job
	data, err := os.ReadFile(*jobFile)
	if err != nil {
		fatal(err)
	}
	if err := json.Unmarshal(data, &job); err != nil {
		fatal(err)
	}
	out := Out{}
	t0 := time.Now()
	ov := map[string][]byte{}
	for virt, realp := range job.Overlay {
		b, err := os.ReadFile(realp)
		if err != nil {
			fatal(err)
		}
		ov[virt] = b
	}
	prog, err := gosym.Load(gosym.LoadConfig{Dir: job.Dir, Patterns: job.Patterns, Overlay: ov, Tags: job.Tags, Env: job.Env})
	if err != nil {
		out.Error = err.Error()
		write(*outFile, out)
		fmt.Fprintln(os.Stderr, "load error:", err)
		os.Exit(3)
	}
	out.LoadSec = time.Since(t0).Seconds()
	out.Packages = len(prog.Prog.AllPackages())
	fmt.Fprintf(os.Stderr, "loaded %d packages in %.1fs\n", out.Packages, out.LoadSec)
	for _, h := range job.Harnesses {
		ho := HarnessOut{Label: h.Label, Pkg: h.Pkg, Func: h.Func, Params: h.Params}
		fn := prog.FindFunc(h.Pkg, h.Func)
		if fn == nil {
			ho.Error = "harness function not found: " + h.Pkg + "." + h.Func
			out.Harnesses = append(out.Harnesses, ho)
			continue
		}
		cfg := gosym.Config{Harness: h.Func, Workers: h.Workers, QueryTimeoutMs: h.QueryTimeoutMs, StepLimit: h.StepLimit,
			MaxPaths: h.MaxPaths, PermuteRanges: h.PermuteRanges, Merge: !h.NoMerge, Solver: h.Solver, Trace: job.Trace,
			MaxViolations: h.MaxViolations, Params: h.Params, SampleModels: h.SampleModels}
		if h.TimeoutS > 0 {
			cfg.Deadline = time.Now().Add(time.Duration(h.TimeoutS) * time.Second)
		}
		ex := gosym.NewExplorer(prog, fn, cfg)
		t1 := time.Now()
		if err := ex.Run(); err != nil {
			ho.Error = err.Error()
		}
		ho.WallSec = time.Since(t1).Seconds()
		ho.Paths, ho.Decisions, ho.Kinds, ho.Sites = ex.Paths, ex.Decisions, ex.Kinds, ex.Sites
		ho.Queries, ho.Sat, ho.Unsat, ho.Unknown, ho.SolverErrs, ho.SolverSec = ex.Queries, ex.NSat, ex.NUnsat, ex.NUnknown, ex.NErrs, ex.SolverSec
		if ex.ErrorSample != "" {
			fmt.Fprintf(os.Stderr, "  solver error sample: %s\n", ex.ErrorSample)
		}
		ho.Merges, ho.MergeFails, ho.Truncated = ex.Merges, ex.MergeFails, ex.Truncated
		ho.StubHit = ex.StubHit
		// keep the top functions by instruction count
		type kv struct {
			k string
			v int64
		}
		var kvs []kv
		for k, v := range ex.FnInstr {
			kvs = append(kvs, kv{k, v})
		}
		sort.Slice(kvs, func(a, b int) bool { return kvs[a].v > kvs[b].v })
		ho.FnInstr = map[string]int64{}
		for k, e := range kvs {
			if k >= 60 {
				break
			}
			ho.FnInstr[e.k] = e.v
		}
		for _, r := range ex.Results {
			po := PathOut{Kind: r.Kind, Site: r.Site, Msg: r.Msg, Model: r.Model, Steps: r.Steps, Sample: r.Sample, Observes: r.Observes, Sites: r.Sites}
			switch r.Kind {
			case "violation", "panic":
				po.Log = r.Log
				ho.Violations = append(ho.Violations, po)
			case "inconclusive":
				if len(ho.Inconcl) < 10 {
					ho.Inconcl = append(ho.Inconcl, po)
				}
			case "ok":
				if po.Model != nil || len(ho.Samples) < 3 {
					ho.Samples = append(ho.Samples, po)
				}
			}
		}
		out.Harnesses = append(out.Harnesses, ho)
		fmt.Fprintf(os.Stderr, "%s.%s %v: paths=%d kinds=%v queries=%d (sat %d unsat %d unknown %d err %d) solver=%.1fs wall=%.1fs merges=%d/%d sites=%v\n",
			h.Pkg, h.Func, shortParams(h.Params), ex.Paths, ex.Kinds, ex.Queries, ex.NSat, ex.NUnsat, ex.NUnknown, ex.NErrs, ex.SolverSec, ho.WallSec, ex.Merges, ex.MergeFails, ex.Sites)
		if len(ex.FailWhy) > 0 {
			fmt.Fprintf(os.Stderr, "  merge failures: %v\n", ex.FailWhy)
		}
		for _, v := range ho.Violations {
			fmt.Fprintf(os.Stderr, "  %s site=%s %s model=%v\n", strings.ToUpper(v.Kind), v.Site, firstLine(v.Msg), v.Model)
		}
		for k, v := range ho.Inconcl {
			if k < 3 {
				fmt.Fprintf(os.Stderr, "  INCONCLUSIVE %s\n", firstLine(v.Msg))
			}
		}
	}
	out.Taints = prog.Taints()
	write(*outFile, out)
}

func firstLine(s string) string {
	if i := strings.IndexByte(s, '\n'); i >= 0 {
		return s[:i]
	}
	return s
}

func write(path string, out Out) {
	b, _ := json.MarshalIndent(out, "", " ")
	if path == "" {
		os.Stdout.Write(b)
		return
	}
	if err := os.WriteFile(path, b, 0o644); err != nil {
		fatal(err)
	}
}

func fatal(err error) {
	fmt.Fprintln(os.Stderr, "gosym:", err)
	os.Exit(3)
}

// shortParams keeps the progress line readable when a pre-script injected hundreds of parameters.
func shortParams(p map[string]int64) any {
	if len(p) <= 12 {
		return p
	}
	return fmt.Sprintf("map[%d params]", len(p))
}
