package polprog

import (
	"encoding/binary"

	v3 "github.com/projectcalico/api/pkg/apis/projectcalico/v3"

	"github.com/projectcalico/calico/felix/bpf/maps"
	"github.com/projectcalico/calico/felix/bpf/state"
	"github.com/projectcalico/calico/felix/generictables"
	"github.com/projectcalico/calico/felix/ipsets"
	"github.com/projectcalico/calico/felix/iptables"
	"github.com/projectcalico/calico/felix/proto"
	"github.com/projectcalico/calico/felix/rules"
	"github.com/projectcalico/calico/felix/types"
)

// C12: all dataplanes agree on the verdict (iptables renderer vs BPF policy program).
// The same tier/policy/profile layout and the same rules are given to both real generators;
// nfeval runs the rendered iptables chains, bpfeval the BPF program, on ONE symbolic packet.
// No reference model is in the loop.

func VerifHarness_C12_agree() {
	from := verifParam("FROM", 0)
	count := verifParam("COUNT", 64)
	stride := verifParam("STRIDE", 1)
	shape := from + verifChoose("shape", count)*stride
	digit := func(radix int) int {
		d := shape % radix
		shape /= radix
		return d
	}
	mkRule := func() *proto.Rule {
		r := vbRule{rng: digit(3), action: vbActions[digit(4)]}
		return r.proto()
	}
	rr := rules.NewRenderer(rules.Config{
		IPSetConfigV4: ipsets.NewIPVersionConfig(ipsets.IPFamilyV4, "cali", nil, nil),
		IPSetConfigV6: ipsets.NewIPVersionConfig(ipsets.IPFamilyV6, "cali", nil, nil),
		MarkAccept:    0x80, MarkPass: 0x100, MarkScratch0: 0x200, MarkScratch1: 0x400, MarkDrop: 0x800,
		MarkEndpoint: 0xff000,
	}, false).(*rules.DefaultRuleRenderer)
	cm := map[string][]generictables.Rule{}
	add := func(cs []*generictables.Chain) {
		for _, c := range cs {
			if c != nil {
				cm[c.Name] = c.Rules
			}
		}
	}
	var bpfRules Rules
	var tpg []rules.TierPolicyGroups
	id := uint64(100)
	nt := 1 + digit(2)
	for ti := 0; ti < nt; ti++ {
		name := "tier" + string(rune('a'+ti))
		pass := digit(2) == 1
		bt := Tier{Name: name, EndAction: TierEndDeny, EndRuleID: id}
		tg := rules.TierPolicyGroups{Name: name, DefaultAction: string(v3.Deny)}
		id++
		if pass {
			bt.EndAction = TierEndPass
			tg.DefaultAction = string(v3.Pass)
		}
		np := 1 + digit(2)
		for pi := 0; pi < np; pi++ {
			pid := &types.PolicyID{Name: name + ".p" + string(rune('0'+pi)), Kind: v3.KindGlobalNetworkPolicy}
			pol := Policy{Kind: pid.Kind, Name: pid.Name}
			pp := &proto.Policy{Tier: name}
			n := 1 + digit(2)
			for i := 0; i < n; i++ {
				r := mkRule()
				pol.Rules = append(pol.Rules, Rule{Rule: r, MatchID: id})
				id++
				pp.InboundRules = append(pp.InboundRules, r)
			}
			bt.Policies = append(bt.Policies, pol)
			add(rr.PolicyToIptablesChains(pid, pp, 4))
			tg.IngressPolicies = append(tg.IngressPolicies, &rules.PolicyGroup{Direction: rules.PolicyDirectionInbound, Policies: []*types.PolicyID{pid}, Selector: "all()"})
		}
		bpfRules.Tiers = append(bpfRules.Tiers, bt)
		tpg = append(tpg, tg)
	}
	var profIDs []string
	if digit(2) == 1 {
		r := vbRule{rng: digit(3), action: vbActions[digit(2)]}.proto()
		bpfRules.Profiles = []Profile{{Kind: "Profile", Name: "prof1", Rules: []Rule{{Rule: r, MatchID: id}}}}
		id++
		profIDs = []string{"prof1"}
		in, out := rr.ProfileToIptablesChains(&types.ProfileID{Name: "prof1"}, &proto.Profile{InboundRules: []*proto.Rule{r}}, 4)
		add([]*generictables.Chain{in, out})
	}
	bpfRules.NoProfileMatchID = id
	add(rr.WorkloadEndpointToIptablesChains("cali1234", nil, true, tpg, profIDs, nil))

	// one packet, two dataplanes
	p := vNewPkt()
	// precondition of the endpoint chain (see C09): the MarkDrop bit is clear on entry
	verifAssume(p.mark&0x800 == 0)
	sets := &vSets{m: map[string]bool{}}
	top := rules.EndpointChainName(rules.WorkloadToEndpointPfx, "cali1234", iptables.MaxChainNameLength)
	v := vEvalRules(cm[top], p, sets, cm, 0)
	iptAllowed := v == vReturn && p.mark&0x80 != 0
	verifAssert("agree/iptables-decides", iptAllowed || v == vDrop)

	b := NewBuilder(vIDs{}, maps.FD(vFDIPSets), maps.FD(vFDState), maps.FD(vFDJump), maps.FD(vFDPol), WithAllowDenyJumps(1, 2))
	progs, err := b.Instructions(bpfRules)
	verifAssert("agree/bpf-builds", err == nil && len(progs) == 1)
	if err != nil || len(progs) != 1 {
		return
	}
	m := &vBPF{sets: map[string]bool{}}
	binary.BigEndian.PutUint32(m.st[8:], p.src)
	binary.BigEndian.PutUint32(m.st[8+16:], p.dst)
	binary.BigEndian.PutUint32(m.st[8+32:], p.dst)
	binary.BigEndian.PutUint32(m.st[8+48:], p.dst)
	binary.LittleEndian.PutUint16(m.st[8+88:], p.sport)
	binary.LittleEndian.PutUint16(m.st[8+90:], p.dport)
	binary.LittleEndian.PutUint16(m.st[8+92:], p.dport)
	binary.LittleEndian.PutUint16(m.st[8+94:], p.dport)
	m.st[8+96] = p.proto
	m.run(progs)
	rc := binary.LittleEndian.Uint32(m.st[8+84:])
	verifAssert("agree/bpf-decides", rc == uint32(state.PolicyAllow) || rc == uint32(state.PolicyDeny))
	verifAssert("agree/iptables-equals-bpf", iptAllowed == (rc == uint32(state.PolicyAllow)))
}
