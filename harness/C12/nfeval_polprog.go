// Code generated from harness/oracle/nfeval.go (package clause changed); DO NOT EDIT.
package polprog

// nfeval: evaluates rendered iptables rules "as the kernel would", from the rendered text, over
// a symbolic packet.  refpolicy: Calico rule semantics on proto.Rule.  Both are ordinary Go,
// executed symbolically by the engine and natively on replay.  Specification code: kept small
// and independent of the renderer under test.

import (
	"strconv"
	"strings"

	"github.com/projectcalico/calico/felix/environment"
	"github.com/projectcalico/calico/felix/generictables"
	"github.com/projectcalico/calico/felix/proto"
)

type vPkt struct {
	proto              uint8
	src, dst           uint32
	sport, dport       uint16
	icmpType, icmpCode uint8
	mark               uint32
	ctNew              bool
	inIface, outIface  string
	reached            string // first chain outside the evaluated set that control was handed to
}

// vSets: IP-set membership oracle: one free boolean per (set name, dimension) for THE packet.
type vSets struct{ m map[string]bool }

func (s *vSets) in(name, dims string) bool {
	k := name + "|" + dims
	if v, ok := s.m[k]; ok {
		return v
	}
	v := verifBool("set:" + k)
	s.m[k] = v
	return v
}

func vNewPkt() *vPkt {
	return &vPkt{proto: verifU8("pkt.proto"), src: verifU32("pkt.src"), dst: verifU32("pkt.dst"),
		sport: verifU16("pkt.sport"), dport: verifU16("pkt.dport"), icmpType: verifU8("pkt.icmptype"),
		icmpCode: verifU8("pkt.icmpcode"), mark: verifU32("pkt.mark"), ctNew: true}
}

const (
	vCont   = 0
	vAccept = 1
	vDrop   = 2
	vReturn = 3
	vReject = 4
	vHandOff = 5 // control handed to a chain outside the evaluated set (p.reached)
)

func vProtoNum(s string) (uint8, bool) {
	switch s {
	case "tcp":
		return 6, true
	case "udp":
		return 17, true
	case "icmp":
		return 1, true
	case "icmpv6", "ipv6-icmp":
		return 58, true
	case "sctp":
		return 132, true
	case "udplite":
		return 136, true
	}
	n, err := strconv.Atoi(s)
	if err != nil || n < 0 || n > 255 {
		return 0, false
	}
	return uint8(n), true
}

func vParseCIDR4(s string) (addr uint32, plen int, ok bool) {
	ip := s
	plen = 32
	if i := strings.IndexByte(s, '/'); i >= 0 {
		ip = s[:i]
		n, err := strconv.Atoi(s[i+1:])
		if err != nil {
			return 0, 0, false
		}
		plen = n
	}
	parts := strings.Split(ip, ".")
	if len(parts) != 4 {
		return 0, 0, false
	}
	for _, p := range parts {
		n, err := strconv.Atoi(p)
		if err != nil || n < 0 || n > 255 {
			return 0, 0, false
		}
		addr = addr<<8 | uint32(n)
	}
	return addr, plen, true
}

func vInCIDR(a uint32, cidr string) bool {
	base, plen, ok := vParseCIDR4(cidr)
	if !ok {
		verifFail("oracle/bad-cidr")
	}
	if plen == 0 {
		return true
	}
	m := uint32(0xffffffff) << uint(32-plen)
	return a&m == base&m
}

func vPortProto(p uint8) bool { return p == 6 || p == 17 || p == 132 || p == 136 || p == 33 }

func vInPortList(port uint16, list string) bool {
	hit := false
	for _, item := range strings.Split(list, ",") {
		lo, hi := item, item
		if i := strings.IndexByte(item, ':'); i >= 0 {
			lo, hi = item[:i], item[i+1:]
		}
		l, e1 := strconv.Atoi(lo)
		h, e2 := strconv.Atoi(hi)
		if e1 != nil || e2 != nil {
			verifFail("oracle/bad-port-list")
		}
		if port >= uint16(l) && port <= uint16(h) {
			hit = true
		}
	}
	return hit
}

func vParseU32(s string) uint32 {
	n, err := strconv.ParseUint(s, 0, 32)
	if err != nil {
		verifFail("oracle/bad-number")
	}
	return uint32(n)
}

// vMatch interprets one rendered iptables match string.
func vMatch(text string, p *vPkt, sets *vSets) bool {
	w := strings.Fields(text)
	ok := true
	for i := 0; i < len(w); {
		neg := false
		if w[i] == "!" {
			neg = true
			i++
		}
		var hit bool
		switch w[i] {
		case "-p":
			n, good := vProtoNum(w[i+1])
			if !good {
				verifFail("oracle/unknown-protocol")
			}
			hit = p.proto == n
			i += 2
		case "--source":
			hit = vInCIDR(p.src, w[i+1])
			i += 2
		case "--destination":
			hit = vInCIDR(p.dst, w[i+1])
			i += 2
		case "--dport":
			hit = vPortProto(p.proto) && p.dport == uint16(vParseU32(w[i+1]))
			i += 2
		case "--in-interface", "--out-interface":
			name := p.inIface
			if w[i] == "--out-interface" {
				name = p.outIface
			}
			pat := w[i+1]
			if strings.HasSuffix(pat, "+") {
				hit = strings.HasPrefix(name, pat[:len(pat)-1])
			} else {
				hit = name == pat
			}
			i += 2
		case "-m":
			mod := w[i+1]
			i += 2
			if i < len(w) && w[i] == "!" {
				neg = true
				i++
			}
			switch mod {
			case "set":
				if w[i] != "--match-set" {
					verifFail("oracle/unknown-set-fragment")
				}
				hit = sets.in(w[i+1], w[i+2])
				i += 3
			case "multiport":
				switch w[i] {
				case "--source-ports":
					hit = vPortProto(p.proto) && vInPortList(p.sport, w[i+1])
				case "--destination-ports":
					hit = vPortProto(p.proto) && vInPortList(p.dport, w[i+1])
				default:
					verifFail("oracle/unknown-multiport-fragment")
				}
				if len(strings.Split(strings.ReplaceAll(w[i+1], ":", ","), ",")) > 15 {
					verifFail("kernel/multiport-more-than-15-slots")
				}
				i += 2
			case "mark":
				if w[i] != "--mark" {
					verifFail("oracle/unknown-mark-fragment")
				}
				vm := strings.Split(w[i+1], "/")
				val := vParseU32(vm[0])
				mask := uint32(0xffffffff)
				if len(vm) == 2 {
					mask = vParseU32(vm[1])
				}
				hit = p.mark&mask == val
				i += 2
			case "icmp", "icmp6":
				tc := strings.Split(w[i+1], "/")
				want := uint8(1)
				if mod == "icmp6" {
					want = 58
				}
				hit = p.proto == want && p.icmpType == uint8(vParseU32(tc[0]))
				if len(tc) == 2 {
					hit = hit && p.icmpCode == uint8(vParseU32(tc[1]))
				}
				i += 2
			case "conntrack":
				if w[i] != "--ctstate" {
					verifFail("oracle/unknown-conntrack-fragment")
				}
				hit = (p.ctNew && strings.Contains(w[i+1], "NEW")) || (!p.ctNew && strings.Contains(w[i+1], "ESTABLISHED"))
				i += 2
			default:
				verifFail("oracle/unknown-match-module")
			}
		default:
			verifFail("oracle/unknown-match-fragment")
		}
		if hit == neg {
			ok = false
		}
	}
	return ok
}

var vFeatures = &environment.Features{}

// vEvalRules walks a rule list; returns the terminal verdict (vCont = fell off the end).
func vEvalRules(rules []generictables.Rule, p *vPkt, sets *vSets, chains map[string][]generictables.Rule, depth int) int {
	if depth > 8 {
		verifFail("oracle/chain-depth")
	}
	for _, r := range rules {
		if r.Match != nil && !vMatch(r.Match.Render(), p, sets) {
			continue
		}
		w := strings.Fields(r.Action.ToFragment(vFeatures))
		if len(w) < 2 || (w[0] != "--jump" && w[0] != "--goto") {
			verifFail("oracle/unknown-action")
		}
		switch w[1] {
		case "ACCEPT":
			return vAccept
		case "DROP":
			return vDrop
		case "REJECT":
			return vReject
		case "RETURN":
			return vReturn
		case "MARK":
			// --set-mark value/mask == --set-xmark: clear the mask bits, then OR in the value
			vm := strings.Split(w[3], "/")
			val := vParseU32(vm[0])
			mask := uint32(0xffffffff)
			if len(vm) == 2 {
				mask = vParseU32(vm[1])
			}
			p.mark = (p.mark &^ mask) | val
		case "NFLOG", "LOG":
		default:
			sub, known := chains[w[1]]
			if !known {
				p.reached = w[1]
				return vHandOff
			}
			v := vEvalRules(sub, p, sets, chains, depth+1)
			if v == vAccept || v == vDrop || v == vReject || v == vHandOff {
				return v
			}
			if w[0] == "--goto" {
				return vReturn
			}
		}
	}
	return vCont
}

// ---- refpolicy: Calico semantics of one proto.Rule against the packet ----

func vProtoMatches(pr *proto.Protocol, p *vPkt) bool {
	switch x := pr.NumberOrName.(type) {
	case *proto.Protocol_Name:
		n, ok := vProtoNum(strings.ToLower(x.Name))
		return ok && p.proto == n
	case *proto.Protocol_Number:
		return p.proto == uint8(x.Number)
	}
	return true
}

func vAnyCIDR(a uint32, cidrs []string) bool {
	hit := false
	for _, c := range cidrs {
		if vInCIDR(a, c) {
			hit = true
		}
	}
	return hit
}

func vInRanges(port uint16, rs []*proto.PortRange) bool {
	hit := false
	for _, r := range rs {
		if port >= uint16(r.First) && port <= uint16(r.Last) {
			hit = true
		}
	}
	return hit
}

// vRefMatch: does the rule select the packet?  nameFor maps an IP set id to its kernel name.
func vRefMatch(r *proto.Rule, p *vPkt, sets *vSets, nameFor func(string) string) bool {
	m := true
	if r.Protocol != nil && !vProtoMatches(r.Protocol, p) {
		m = false
	}
	if r.NotProtocol != nil && vProtoMatches(r.NotProtocol, p) {
		m = false
	}
	if len(r.SrcNet) > 0 && !vAnyCIDR(p.src, r.SrcNet) {
		m = false
	}
	if len(r.DstNet) > 0 && !vAnyCIDR(p.dst, r.DstNet) {
		m = false
	}
	if vAnyCIDR(p.src, r.NotSrcNet) {
		m = false
	}
	if vAnyCIDR(p.dst, r.NotDstNet) {
		m = false
	}
	// ports: numeric ranges OR named-port sets
	if len(r.SrcPorts)+len(r.SrcNamedPortIpSetIds) > 0 {
		hit := vPortProto(p.proto) && vInRanges(p.sport, r.SrcPorts)
		for _, id := range r.SrcNamedPortIpSetIds {
			if sets.in(nameFor(id), "src,src") {
				hit = true
			}
		}
		if !hit {
			m = false
		}
	}
	if len(r.DstPorts)+len(r.DstNamedPortIpSetIds) > 0 {
		hit := vPortProto(p.proto) && vInRanges(p.dport, r.DstPorts)
		for _, id := range r.DstNamedPortIpSetIds {
			if sets.in(nameFor(id), "dst,dst") {
				hit = true
			}
		}
		if !hit {
			m = false
		}
	}
	if len(r.NotSrcPorts) > 0 && vPortProto(p.proto) && vInRanges(p.sport, r.NotSrcPorts) {
		m = false
	}
	if len(r.NotDstPorts) > 0 && vPortProto(p.proto) && vInRanges(p.dport, r.NotDstPorts) {
		m = false
	}
	for _, id := range r.NotSrcNamedPortIpSetIds {
		if sets.in(nameFor(id), "src,src") {
			m = false
		}
	}
	for _, id := range r.NotDstNamedPortIpSetIds {
		if sets.in(nameFor(id), "dst,dst") {
			m = false
		}
	}
	for _, id := range r.SrcIpSetIds {
		if !sets.in(nameFor(id), "src") {
			m = false
		}
	}
	for _, id := range r.DstIpSetIds {
		if !sets.in(nameFor(id), "dst") {
			m = false
		}
	}
	for _, id := range r.DstIpPortSetIds {
		if !sets.in(nameFor(id), "dst,dst") {
			m = false
		}
	}
	for _, id := range r.NotSrcIpSetIds {
		if sets.in(nameFor(id), "src") {
			m = false
		}
	}
	for _, id := range r.NotDstIpSetIds {
		if sets.in(nameFor(id), "dst") {
			m = false
		}
	}
	switch ic := r.Icmp.(type) {
	case *proto.Rule_IcmpType:
		if !(p.proto == 1 && p.icmpType == uint8(ic.IcmpType)) {
			m = false
		}
	case *proto.Rule_IcmpTypeCode:
		if !(p.proto == 1 && p.icmpType == uint8(ic.IcmpTypeCode.Type) && p.icmpCode == uint8(ic.IcmpTypeCode.Code)) {
			m = false
		}
	}
	switch ic := r.NotIcmp.(type) {
	case *proto.Rule_NotIcmpType:
		if p.proto == 1 && p.icmpType == uint8(ic.NotIcmpType) {
			m = false
		}
	case *proto.Rule_NotIcmpTypeCode:
		if p.proto == 1 && p.icmpType == uint8(ic.NotIcmpTypeCode.Type) && p.icmpCode == uint8(ic.NotIcmpTypeCode.Code) {
			m = false
		}
	}
	return m
}
