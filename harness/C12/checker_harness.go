package checker

import (
	"net"

	v3 "github.com/projectcalico/api/pkg/apis/projectcalico/v3"

	"github.com/projectcalico/calico/app-policy/policystore"
	"github.com/projectcalico/calico/felix/proto"
	"github.com/projectcalico/calico/felix/rules"
	ftypes "github.com/projectcalico/calico/felix/types"
)

// C12 (application-layer checker): checkTiers on a generated endpoint policy state and a free L4
// flow reaches the reference allow/deny verdict (the same reference the iptables, nftables and BPF
// renderings are compared with in C09/C11/C12's other harness), so the four implementations agree.
// Sym: protocol, source/destination address, source/destination port.  Shape: tiers x policies x
// staged x default action x rules (port lists in listed order, negated ports, source CIDR lists,
// protocol, negated protocol) x profile.

type vcFlow struct {
	src, dst     net.IP
	sport, dport int
	protocol     int
}

func (f *vcFlow) GetSourceIP() net.IP                { return f.src }
func (f *vcFlow) GetDestIP() net.IP                  { return f.dst }
func (f *vcFlow) GetSourcePort() int                 { return f.sport }
func (f *vcFlow) GetDestPort() int                   { return f.dport }
func (f *vcFlow) GetProtocol() int                   { return f.protocol }
func (f *vcFlow) GetHttpMethod() *string             { return nil }
func (f *vcFlow) GetHttpPath() *string               { return nil }
func (f *vcFlow) GetSourcePrincipal() *string        { return nil }
func (f *vcFlow) GetDestPrincipal() *string          { return nil }
func (f *vcFlow) GetSourceLabels() map[string]string { return nil }
func (f *vcFlow) GetDestLabels() map[string]string   { return nil }

type vcRule struct {
	ports  int // 0 none, 1 [80-89], 2 [8080, 80] (not ascending), 3 [9000-9100, 85-95, 443]
	notp   int // 0 none, 1 not [85-95], 2 not [8080, 80]
	nets   int // 0 none, 1 [10.0.0.0/8, 192.168.0.0/16], 2 not-src [10.1.0.0/16]
	prot   int // 0 none, 1 tcp, 2 not udp, 3 number 6
	action string
}

var vcPortLists = [][][2]int32{nil, {{80, 89}}, {{8080, 8080}, {80, 80}}, {{9000, 9100}, {85, 95}, {443, 443}}}
var vcNotPortLists = [][][2]int32{nil, {{85, 95}}, {{8080, 8080}, {80, 80}}}
var vcActions = []string{"allow", "deny", "next-tier", "log"}

func vcRanges(l [][2]int32) []*proto.PortRange {
	var out []*proto.PortRange
	for _, r := range l {
		out = append(out, &proto.PortRange{First: r[0], Last: r[1]})
	}
	return out
}

func (r vcRule) proto() *proto.Rule {
	pr := &proto.Rule{Action: r.action}
	pr.DstPorts = vcRanges(vcPortLists[r.ports])
	pr.NotDstPorts = vcRanges(vcNotPortLists[r.notp])
	switch r.nets {
	case 1:
		pr.SrcNet = []string{"10.0.0.0/8", "192.168.0.0/16"}
	case 2:
		pr.NotSrcNet = []string{"10.1.0.0/16"}
	}
	switch r.prot {
	case 1:
		pr.Protocol = &proto.Protocol{NumberOrName: &proto.Protocol_Name{Name: "tcp"}}
	case 2:
		pr.NotProtocol = &proto.Protocol{NumberOrName: &proto.Protocol_Name{Name: "udp"}}
	case 3:
		pr.Protocol = &proto.Protocol{NumberOrName: &proto.Protocol_Number{Number: 6}}
	}
	if (r.ports != 0 || r.notp != 0) && r.prot == 0 {
		// ports need a protocol (API validation)
		pr.Protocol = &proto.Protocol{NumberOrName: &proto.Protocol_Name{Name: "tcp"}}
	}
	return pr
}

func vcInRanges(p int, l [][2]int32) bool {
	for _, r := range l {
		if int32(p) >= r[0] && int32(p) <= r[1] {
			return true
		}
	}
	return false
}

func (r vcRule) matches(f *vcFlow, src uint32) bool {
	if r.ports != 0 && !vcInRanges(f.dport, vcPortLists[r.ports]) {
		return false
	}
	if r.notp != 0 && vcInRanges(f.dport, vcNotPortLists[r.notp]) {
		return false
	}
	switch r.nets {
	case 1:
		if src>>24 != 10 && src>>16 != 192<<8|168 {
			return false
		}
	case 2:
		if src>>16 == 10<<8|1 {
			return false
		}
	}
	tcpNeeded := r.prot == 1 || r.prot == 3 || ((r.ports != 0 || r.notp != 0) && r.prot == 0)
	if tcpNeeded && f.protocol != 6 {
		return false
	}
	if r.prot == 2 && f.protocol == 17 {
		return false
	}
	return true
}

type vcPolicy struct {
	id     *proto.PolicyID
	staged bool
	rules  []vcRule
}

type vcTier struct {
	name      string
	passByDef bool
	pols      []*vcPolicy
}

// vcRefVerdict: true = allowed.  Calico semantics written from the documentation (same text as the
// reference used for the rendered chains).
func vcRefVerdict(tiers []vcTier, profile []vcRule, hasProfile bool, f *vcFlow, src uint32) bool {
	for _, t := range tiers {
		enforced := false
		decided := ""
		for _, pol := range t.pols {
			if pol.staged {
				continue
			}
			enforced = true
			if decided != "" {
				continue
			}
			for _, r := range pol.rules {
				if decided == "" && r.matches(f, src) && r.action != "log" {
					decided = r.action
				}
			}
		}
		switch decided {
		case "allow":
			return true
		case "deny":
			return false
		case "next-tier":
			continue
		}
		if enforced && !t.passByDef {
			return false
		}
	}
	if hasProfile {
		for _, r := range profile {
			if r.matches(f, src) && r.action != "log" {
				return r.action == "allow"
			}
		}
	}
	return false
}

func VerifHarness_C12_checker() {
	shape := verifParam("FROM", 0) + verifChoose("shape", verifParam("COUNT", 64))*verifParam("STRIDE", 1)
	digit := func(radix int) int {
		d := shape % radix
		shape /= radix
		return d
	}
	mkRule := func() vcRule {
		return vcRule{ports: digit(4), notp: digit(3), nets: digit(3), prot: digit(4), action: vcActions[digit(4)]}
	}
	store := policystore.NewPolicyStore()
	ep := &proto.WorkloadEndpoint{}
	var tiers []vcTier
	nt := 1 + digit(2)
	for ti := 0; ti < nt; ti++ {
		t := vcTier{name: "tier" + string(rune('a'+ti)), passByDef: digit(2) == 1}
		np := 1 + digit(2)
		ti2 := &proto.TierInfo{Name: t.name, DefaultAction: string(v3.Deny)}
		if t.passByDef {
			ti2.DefaultAction = string(v3.Pass)
		}
		for pi := 0; pi < np; pi++ {
			pol := &vcPolicy{id: &proto.PolicyID{Name: t.name + ".p" + string(rune('0'+pi)), Kind: v3.KindGlobalNetworkPolicy}}
			if digit(3) == 0 {
				pol.staged = true
				pol.id.Kind = v3.KindStagedGlobalNetworkPolicy
			}
			n := 1 + digit(2)
			pp := &proto.Policy{Tier: t.name}
			for i := 0; i < n; i++ {
				r := mkRule()
				pol.rules = append(pol.rules, r)
				pp.InboundRules = append(pp.InboundRules, r.proto())
			}
			store.PolicyByID[ftypes.ProtoToPolicyID(pol.id)] = pp
			ti2.IngressPolicies = append(ti2.IngressPolicies, pol.id)
			t.pols = append(t.pols, pol)
		}
		ep.Tiers = append(ep.Tiers, ti2)
		tiers = append(tiers, t)
	}
	hasProfile := digit(2) == 1
	var prof []vcRule
	if hasProfile {
		prof = []vcRule{mkRule()}
		pp := &proto.Profile{}
		for _, r := range prof {
			pp.InboundRules = append(pp.InboundRules, r.proto())
		}
		ep.ProfileIds = []string{"prof1"}
		store.ProfileByID[ftypes.ProfileID{Name: "prof1"}] = pp
	}

	src := verifU32("flow.src")
	dst := verifU32("flow.dst")
	f := &vcFlow{
		src:      net.IP{byte(src >> 24), byte(src >> 16), byte(src >> 8), byte(src)},
		dst:      net.IP{byte(dst >> 24), byte(dst >> 16), byte(dst >> 8), byte(dst)},
		sport:    int(verifU16("flow.sport")),
		dport:    int(verifU16("flow.dport")),
		protocol: int(verifU8("flow.proto")),
	}
	verifAssume(f.protocol >= 1) // protocol 0 is not a valid L4 protocol for the checker
	st, _ := checkTiers(EnforcedOnly, store, ep, rules.RuleDirIngress, f)
	want := vcRefVerdict(tiers, prof, hasProfile, f, src)
	verifAssert("checker/decides", st.Code == OK || st.Code == PERMISSION_DENIED)
	verifAssert("checker/verdict-equals-reference", (st.Code == OK) == want)
}
