package rules

import (
	v3 "github.com/projectcalico/api/pkg/apis/projectcalico/v3"

	"github.com/projectcalico/calico/felix/generictables"
	"github.com/projectcalico/calico/felix/iptables"
	"github.com/projectcalico/calico/felix/proto"
	"github.com/projectcalico/calico/felix/types"
)

// C09: endpoint verdicts follow tier, pass, staged and profile semantics.
// Sym: the packet (protocol, ports, addresses, mark).  Shape: tiers x policies x staged flags x
// grouping x tier default action x rule actions x rule port ranges x profile (decoded from a
// shape number; the engine forks over the sampled shape window).

type vRule struct {
	rng    int // index into verifRanges (2 = match everything)
	action string
}

type vPolicy struct {
	id     *types.PolicyID
	staged bool
	rules  []vRule
}

type vTier struct {
	name      string
	passByDef bool
	groups    [][]*vPolicy
}

var verifRanges = [][2]int32{{80, 89}, {85, 95}}
var verifActions = []string{"allow", "deny", "next-tier", "log"}

func (r vRule) proto() *proto.Rule {
	pr := &proto.Rule{Action: r.action}
	if r.rng < len(verifRanges) {
		pr.Protocol = &proto.Protocol{NumberOrName: &proto.Protocol_Name{Name: "tcp"}}
		pr.DstPorts = []*proto.PortRange{{First: verifRanges[r.rng][0], Last: verifRanges[r.rng][1]}}
	}
	return pr
}

func (r vRule) matches(p *vPkt) bool {
	if r.rng >= len(verifRanges) {
		return true
	}
	return p.proto == 6 && int32(p.dport) >= verifRanges[r.rng][0] && int32(p.dport) <= verifRanges[r.rng][1]
}

// verifRefVerdict: true = allowed.  Calico semantics written from the documentation.
func verifRefVerdict(tiers []vTier, profile []vRule, hasProfile bool, p *vPkt) bool {
	for _, t := range tiers {
		enforced := false
		decided := ""
		for _, g := range t.groups {
			for _, pol := range g {
				if pol.staged {
					continue
				}
				enforced = true
				if decided != "" {
					continue
				}
				for _, r := range pol.rules {
					if decided == "" && r.matches(p) && r.action != "log" {
						decided = r.action
					}
				}
			}
		}
		switch decided {
		case "allow":
			return true
		case "deny":
			return false
		case "next-tier":
			continue
		}
		if enforced && !t.passByDef {
			return false // end of tier: default deny
		}
	}
	if hasProfile {
		for _, r := range profile {
			if r.matches(p) && r.action != "log" {
				return r.action == "allow"
			}
		}
	}
	return false
}

func verifDecodeLayout(shape int) ([]vTier, []vRule, bool) {
	digit := func(radix int) int {
		d := shape % radix
		shape /= radix
		return d
	}
	mkPol := func(name string) *vPolicy {
		pol := &vPolicy{id: &types.PolicyID{Name: name, Kind: v3.KindGlobalNetworkPolicy}}
		if digit(3) == 0 {
			pol.staged = true
			pol.id.Kind = v3.KindStagedGlobalNetworkPolicy
		}
		n := 1 + digit(2)
		for i := 0; i < n; i++ {
			pol.rules = append(pol.rules, vRule{rng: digit(3), action: verifActions[digit(4)]})
		}
		return pol
	}
	var tiers []vTier
	nt := 1 + digit(2)
	for ti := 0; ti < nt; ti++ {
		t := vTier{name: "tier" + string(rune('a'+ti)), passByDef: digit(2) == 1}
		np := 1 + digit(2)
		if ti > 0 {
			np = 1
		}
		var pols []*vPolicy
		for pi := 0; pi < np; pi++ {
			pols = append(pols, mkPol(t.name+".p"+string(rune('0'+pi))))
		}
		if len(pols) == 2 && digit(2) == 1 {
			t.groups = [][]*vPolicy{pols} // one group chain
		} else {
			for _, p := range pols {
				t.groups = append(t.groups, []*vPolicy{p})
			}
		}
		tiers = append(tiers, t)
	}
	hasProfile := digit(2) == 1
	var prof []vRule
	if hasProfile {
		prof = []vRule{{rng: digit(3), action: verifActions[digit(2)]}}
	}
	return tiers, prof, hasProfile
}

func VerifHarness_C09_endpoint() {
	from := verifParam("FROM", 0)
	count := verifParam("COUNT", 64)
	stride := verifParam("STRIDE", 1)
	shape := from + verifChoose("shape", count)*stride
	tiers, prof, hasProfile := verifDecodeLayout(shape)
	rr := verifRenderer()
	cm := map[string][]generictables.Rule{}
	add := func(cs []*generictables.Chain) {
		for _, c := range cs {
			if c != nil {
				cm[c.Name] = c.Rules
			}
		}
	}
	var tpg []TierPolicyGroups
	for _, t := range tiers {
		tg := TierPolicyGroups{Name: t.name, DefaultAction: string(v3.Deny)}
		if t.passByDef {
			tg.DefaultAction = string(v3.Pass)
		}
		for _, g := range t.groups {
			pg := &PolicyGroup{Direction: PolicyDirectionInbound, Selector: "all()"}
			for _, pol := range g {
				pg.Policies = append(pg.Policies, pol.id)
				pp := &proto.Policy{Tier: t.name}
				for _, r := range pol.rules {
					pp.InboundRules = append(pp.InboundRules, r.proto())
				}
				add(rr.PolicyToIptablesChains(pol.id, pp, 4))
			}
			if !pg.ShouldBeInlined() {
				add(rr.PolicyGroupToIptablesChains(pg))
			}
			tg.IngressPolicies = append(tg.IngressPolicies, pg)
		}
		tpg = append(tpg, tg)
	}
	var profIDs []string
	if hasProfile {
		profIDs = []string{"prof1"}
		pp := &proto.Profile{}
		for _, r := range prof {
			pp.InboundRules = append(pp.InboundRules, r.proto())
		}
		in, out := rr.ProfileToIptablesChains(&types.ProfileID{Name: "prof1"}, pp, 4)
		add([]*generictables.Chain{in, out})
	}
	add(rr.WorkloadEndpointToIptablesChains("cali1234", nil, true, tpg, profIDs, nil))

	p := vNewPkt()
	// MarkDrop is set only by a deny rule immediately before its drop action and the mark mask is
	// reserved to Calico, so no packet enters an endpoint chain with it set (the other Calico bits
	// are free here: the chain clears accept/pass itself and scratch bits are written before use)
	verifAssume(p.mark&0x800 == 0)
	sets := &vSets{m: map[string]bool{}}
	want := verifRefVerdict(tiers, prof, hasProfile, p)
	top := EndpointChainName(WorkloadToEndpointPfx, "cali1234", iptables.MaxChainNameLength)
	v := vEvalRules(cm[top], p, sets, cm, 0)
	allowed := v == vReturn && p.mark&0x80 != 0
	denied := v == vDrop
	verifAssert("endpoint/decides", allowed || denied)
	verifAssert("endpoint/verdict-equals-reference", allowed == want)
}


// VerifHarness_C09_directions: ingress and egress of one endpoint carry different policies in the
// same tiers (enforced in one direction, staged or absent in the other); both rendered endpoint
// chains are compared with the reference, each against its own direction's policies only.
func VerifHarness_C09_directions() {
	shape := verifChoose("shape", verifParam("COUNT", 1200)) * verifParam("STRIDE", 1)
	digit := func(radix int) int {
		d := shape % radix
		shape /= radix
		return d
	}
	// slot: 0 none, 1 staged allow-all, 2.. enforced single rule (range {80-89, all} x 4 actions)
	slot := func(name string) []*vPolicy {
		d := digit(10)
		if d == 0 {
			return nil
		}
		pol := &vPolicy{id: &types.PolicyID{Name: name, Kind: v3.KindGlobalNetworkPolicy}}
		if d == 1 {
			pol.staged = true
			pol.id.Kind = v3.KindStagedGlobalNetworkPolicy
			pol.rules = []vRule{{rng: 2, action: "allow"}}
			return []*vPolicy{pol}
		}
		d -= 2
		pol.rules = []vRule{{rng: []int{0, 2}[d%2], action: verifActions[d/2]}}
		return []*vPolicy{pol}
	}
	var dirTiers [2][]vTier // 0 ingress, 1 egress
	aIn, aOut := slot("tiera.in"), slot("tiera.out")
	aPass := digit(2) == 1
	bKind := digit(3)
	hasProfile := digit(2) == 1
	mk := func(name string, pass bool, pols []*vPolicy) vTier {
		t := vTier{name: name, passByDef: pass}
		for _, p := range pols {
			t.groups = append(t.groups, []*vPolicy{p})
		}
		return t
	}
	bPol := func(name string) []*vPolicy {
		switch bKind {
		case 0:
			return nil
		case 1:
			return []*vPolicy{{id: &types.PolicyID{Name: name, Kind: v3.KindGlobalNetworkPolicy}, rules: []vRule{{rng: 2, action: "allow"}}}}
		}
		return []*vPolicy{{id: &types.PolicyID{Name: name, Kind: v3.KindGlobalNetworkPolicy}, rules: []vRule{{rng: 1, action: "allow"}}}}
	}
	dirTiers[0] = []vTier{mk("tiera", aPass, aIn), mk("tierb", false, bPol("tierb.in"))}
	dirTiers[1] = []vTier{mk("tiera", aPass, aOut), mk("tierb", false, bPol("tierb.out"))}
	prof := []vRule{{rng: 2, action: "allow"}}

	rr := verifRenderer()
	cm := map[string][]generictables.Rule{}
	add := func(cs []*generictables.Chain) {
		for _, c := range cs {
			if c != nil {
				cm[c.Name] = c.Rules
			}
		}
	}
	var tpg []TierPolicyGroups
	for ti := 0; ti < 2; ti++ {
		tg := TierPolicyGroups{Name: dirTiers[0][ti].name, DefaultAction: string(v3.Deny)}
		if dirTiers[0][ti].passByDef {
			tg.DefaultAction = string(v3.Pass)
		}
		for dir := 0; dir < 2; dir++ {
			for _, g := range dirTiers[dir][ti].groups {
				pg := &PolicyGroup{Direction: PolicyDirectionInbound, Selector: "all()"}
				if dir == 1 {
					pg.Direction = PolicyDirectionOutbound
				}
				for _, pol := range g {
					pg.Policies = append(pg.Policies, pol.id)
					pp := &proto.Policy{Tier: tg.Name}
					for _, r := range pol.rules {
						if dir == 0 {
							pp.InboundRules = append(pp.InboundRules, r.proto())
						} else {
							pp.OutboundRules = append(pp.OutboundRules, r.proto())
						}
					}
					add(rr.PolicyToIptablesChains(pol.id, pp, 4))
				}
				if !pg.ShouldBeInlined() {
					add(rr.PolicyGroupToIptablesChains(pg))
				}
				if dir == 0 {
					tg.IngressPolicies = append(tg.IngressPolicies, pg)
				} else {
					tg.EgressPolicies = append(tg.EgressPolicies, pg)
				}
			}
		}
		if len(tg.IngressPolicies)+len(tg.EgressPolicies) > 0 {
			tpg = append(tpg, tg)
		}
	}
	var profIDs []string
	if hasProfile {
		profIDs = []string{"prof1"}
		pp := &proto.Profile{}
		for _, r := range prof {
			pp.InboundRules = append(pp.InboundRules, r.proto())
			pp.OutboundRules = append(pp.OutboundRules, r.proto())
		}
		in, out := rr.ProfileToIptablesChains(&types.ProfileID{Name: "prof1"}, pp, 4)
		add([]*generictables.Chain{in, out})
	}
	add(rr.WorkloadEndpointToIptablesChains("cali1234", nil, true, tpg, profIDs, nil))

	for dir := 0; dir < 2; dir++ {
		p := vNewPkt()
		verifAssume(p.mark&0x800 == 0)
		// the from-endpoint chain first drops encapsulated traffic from workloads; not the subject here
		verifAssume(p.proto == 6)
		sets := &vSets{m: map[string]bool{}}
		want := verifRefVerdict(dirTiers[dir], prof, hasProfile, p)
		pfx := WorkloadToEndpointPfx
		if dir == 1 {
			pfx = WorkloadFromEndpointPfx
		}
		v := vEvalRules(cm[EndpointChainName(pfx, "cali1234", iptables.MaxChainNameLength)], p, sets, cm, 0)
		allowed := v == vReturn && p.mark&0x80 != 0
		denied := v == vDrop
		verifAssert("directions/decides", allowed || denied)
		verifAssert("directions/verdict-equals-reference", allowed == want)
	}
}
