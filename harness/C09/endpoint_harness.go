package rules

import (
	v3 "github.com/projectcalico/api/pkg/apis/projectcalico/v3"

	"github.com/projectcalico/calico/felix/generictables"
	"github.com/projectcalico/calico/felix/iptables"
	"github.com/projectcalico/calico/felix/proto"
	"github.com/projectcalico/calico/felix/types"
)

// C09: endpoint verdicts follow tier, pass, staged and profile semantics.
// Sym: the packet (protocol, ports, addresses, mark).  Shape: tiers x policies x staged flags x
// grouping x tier default action x rule actions x rule port ranges x profile (decoded from a
// shape number; the engine forks over the sampled shape window).

type vRule struct {
	rng    int // index into verifRanges (2 = match everything)
	action string
}

type vPolicy struct {
	id     *types.PolicyID
	staged bool
	rules  []vRule
}

type vTier struct {
	name      string
	passByDef bool
	groups    [][]*vPolicy
}

var verifRanges = [][2]int32{{80, 89}, {85, 95}}
var verifActions = []string{"allow", "deny", "next-tier", "log"}

func (r vRule) proto() *proto.Rule {
	pr := &proto.Rule{Action: r.action}
	if r.rng < len(verifRanges) {
		pr.Protocol = &proto.Protocol{NumberOrName: &proto.Protocol_Name{Name: "tcp"}}
		pr.DstPorts = []*proto.PortRange{{First: verifRanges[r.rng][0], Last: verifRanges[r.rng][1]}}
	}
	return pr
}

func (r vRule) matches(p *vPkt) bool {
	if r.rng >= len(verifRanges) {
		return true
	}
	return p.proto == 6 && int32(p.dport) >= verifRanges[r.rng][0] && int32(p.dport) <= verifRanges[r.rng][1]
}

// verifRefVerdict: true = allowed.  Calico semantics written from the documentation.
func verifRefVerdict(tiers []vTier, profile []vRule, hasProfile bool, p *vPkt) bool {
	for _, t := range tiers {
		enforced := false
		decided := ""
		for _, g := range t.groups {
			for _, pol := range g {
				if pol.staged {
					continue
				}
				enforced = true
				if decided != "" {
					continue
				}
				for _, r := range pol.rules {
					if decided == "" && r.matches(p) && r.action != "log" {
						decided = r.action
					}
				}
			}
		}
		switch decided {
		case "allow":
			return true
		case "deny":
			return false
		case "next-tier":
			continue
		}
		if enforced && !t.passByDef {
			return false // end of tier: default deny
		}
	}
	if hasProfile {
		for _, r := range profile {
			if r.matches(p) && r.action != "log" {
				return r.action == "allow"
			}
		}
	}
	return false
}

func verifDecodeLayout(shape int) ([]vTier, []vRule, bool) {
	digit := func(radix int) int {
		d := shape % radix
		shape /= radix
		return d
	}
	mkPol := func(name string) *vPolicy {
		pol := &vPolicy{id: &types.PolicyID{Name: name, Kind: v3.KindGlobalNetworkPolicy}}
		if digit(3) == 0 {
			pol.staged = true
			pol.id.Kind = v3.KindStagedGlobalNetworkPolicy
		}
		n := 1 + digit(2)
		for i := 0; i < n; i++ {
			pol.rules = append(pol.rules, vRule{rng: digit(3), action: verifActions[digit(4)]})
		}
		return pol
	}
	var tiers []vTier
	nt := 1 + digit(2)
	for ti := 0; ti < nt; ti++ {
		t := vTier{name: "tier" + string(rune('a'+ti)), passByDef: digit(2) == 1}
		np := 1 + digit(2)
		if ti > 0 {
			np = 1
		}
		var pols []*vPolicy
		for pi := 0; pi < np; pi++ {
			pols = append(pols, mkPol(t.name+".p"+string(rune('0'+pi))))
		}
		if len(pols) == 2 && digit(2) == 1 {
			t.groups = [][]*vPolicy{pols} // one group chain
		} else {
			for _, p := range pols {
				t.groups = append(t.groups, []*vPolicy{p})
			}
		}
		tiers = append(tiers, t)
	}
	hasProfile := digit(2) == 1
	var prof []vRule
	if hasProfile {
		prof = []vRule{{rng: digit(3), action: verifActions[digit(2)]}}
	}
	return tiers, prof, hasProfile
}

func VerifHarness_C09_endpoint() {
	from := verifParam("FROM", 0)
	count := verifParam("COUNT", 64)
	stride := verifParam("STRIDE", 1)
	shape := from + verifChoose("shape", count)*stride
	tiers, prof, hasProfile := verifDecodeLayout(shape)
	rr := verifRenderer()
	cm := map[string][]generictables.Rule{}
	add := func(cs []*generictables.Chain) {
		for _, c := range cs {
			if c != nil {
				cm[c.Name] = c.Rules
			}
		}
	}
	var tpg []TierPolicyGroups
	for _, t := range tiers {
		tg := TierPolicyGroups{Name: t.name, DefaultAction: string(v3.Deny)}
		if t.passByDef {
			tg.DefaultAction = string(v3.Pass)
		}
		for _, g := range t.groups {
			pg := &PolicyGroup{Direction: PolicyDirectionInbound, Selector: "all()"}
			for _, pol := range g {
				pg.Policies = append(pg.Policies, pol.id)
				pp := &proto.Policy{Tier: t.name}
				for _, r := range pol.rules {
					pp.InboundRules = append(pp.InboundRules, r.proto())
				}
				add(rr.PolicyToIptablesChains(pol.id, pp, 4))
			}
			if !pg.ShouldBeInlined() {
				add(rr.PolicyGroupToIptablesChains(pg))
			}
			tg.IngressPolicies = append(tg.IngressPolicies, pg)
		}
		tpg = append(tpg, tg)
	}
	var profIDs []string
	if hasProfile {
		profIDs = []string{"prof1"}
		pp := &proto.Profile{}
		for _, r := range prof {
			pp.InboundRules = append(pp.InboundRules, r.proto())
		}
		in, out := rr.ProfileToIptablesChains(&types.ProfileID{Name: "prof1"}, pp, 4)
		add([]*generictables.Chain{in, out})
	}
	add(rr.WorkloadEndpointToIptablesChains("cali1234", nil, true, tpg, profIDs, nil))

	p := vNewPkt()
	// MarkDrop is set only by a deny rule immediately before its drop action and the mark mask is
	// reserved to Calico, so no packet enters an endpoint chain with it set (the other Calico bits
	// are free here: the chain clears accept/pass itself and scratch bits are written before use)
	verifAssume(p.mark&0x800 == 0)
	sets := &vSets{m: map[string]bool{}}
	want := verifRefVerdict(tiers, prof, hasProfile, p)
	top := EndpointChainName(WorkloadToEndpointPfx, "cali1234", iptables.MaxChainNameLength)
	v := vEvalRules(cm[top], p, sets, cm, 0)
	allowed := v == vReturn && p.mark&0x80 != 0
	denied := v == vDrop
	verifAssert("endpoint/decides", allowed || denied)
	verifAssert("endpoint/verdict-equals-reference", allowed == want)
}
