package calc

import (
	"github.com/projectcalico/calico/libcalico-go/lib/backend/model"
)

// VerifHarness_C03_sorter: the real PolicySorter (btrees) driven through K policy updates,
// moves between tiers and deletions with FREE orders (float64, not NaN; +Inf = unset order is
// reachable).  After every step Sorted() lists, per tier, exactly the policies currently in that
// tier, each once, in ascending order (then name); a policy never appears in two tiers.
func VerifHarness_C03_sorter() {
	ps := NewPolicySorter()
	keys := []model.PolicyKey{{Name: "pol-p", Kind: "GlobalNetworkPolicy"}, {Name: "pol-q", Kind: "GlobalNetworkPolicy"}}
	tiers := []string{"tier-a", "tier-b"}
	type st struct {
		present bool
		tier    int
		order   float64
	}
	var cur [2]st
	k := verifParam("K", 3)
	for step := 0; step < k; step++ {
		i := verifChoose("policy", 2)
		if verifChoose("delete", 3) == 0 {
			ps.UpdatePolicy(keys[i], nil)
			cur[i] = st{}
		} else {
			o := verifF64("order")
			verifAssume(o == o) // not NaN (JSON cannot carry NaN)
			t := verifChoose("tier", 2)
			ps.UpdatePolicy(keys[i], &policyMetadata{Order: o, Tier: tiers[t], Flags: policyMetaIngress})
			cur[i] = st{true, t, o}
		}
		sorted := ps.Sorted()
		seen := [2]int{}
		for _, ti := range sorted {
			tIdx := -1
			for x := range tiers {
				if tiers[x] == ti.Name {
					tIdx = x
				}
			}
			verifAssert("sorter/known-tier", tIdx >= 0)
			for n, kv := range ti.OrderedPolicies {
				for i := range keys {
					if kv.Key == keys[i] {
						seen[i]++
						verifAssert("sorter/listed-in-its-current-tier-only", cur[i].present && cur[i].tier == tIdx)
						verifAssert("sorter/listed-with-current-order", kv.Value.Order == cur[i].order)
					}
				}
				if n > 0 {
					prev := ti.OrderedPolicies[n-1]
					verifAssert("sorter/ascending-order-then-name", prev.Value.Order < kv.Value.Order ||
						(prev.Value.Order == kv.Value.Order && prev.Key.Name < kv.Key.Name))
				}
			}
		}
		for i := range keys {
			want := 0
			if cur[i].present {
				want = 1
			}
			verifAssert("sorter/every-current-policy-listed-exactly-once", seen[i] == want)
		}
	}
}
