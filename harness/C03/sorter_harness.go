package calc

import (
	"github.com/projectcalico/calico/libcalico-go/lib/backend/model"
)

// C03 (part 1): the comparators that order tiers and policies are strict weak orders equal to
// the documented rule ("ascending order, unset last, then name").
// Sym: orders (float64, non-NaN - JSON cannot carry NaN), valid flags, every byte of the names.

func verifOrder(name string) *float64 {
	if verifBool(name + ".nil") {
		return nil
	}
	f := verifF64(name)
	verifAssume(f == f) // not NaN
	return &f
}

func verifTierKey(name string) tierInfoKey {
	return tierInfoKey{Name: verifString(name+".name", verifParam("NAMELEN", 2)), Valid: verifBool(name + ".valid"), Order: verifOrder(name + ".order")}
}

// specTierLess: valid tiers first; then tiers with an order, ascending; unset order last; ties by name.
func specTierLess(a, b tierInfoKey) bool {
	if a.Valid != b.Valid {
		return a.Valid
	}
	if (a.Order == nil) != (b.Order == nil) {
		return a.Order != nil
	}
	if a.Order != nil && *a.Order != *b.Order {
		return *a.Order < *b.Order
	}
	return a.Name < b.Name
}

func VerifHarness_C03_tierless() {
	a, b, c := verifTierKey("a"), verifTierKey("b"), verifTierKey("c")
	ab, ba := TierLess(a, b), TierLess(b, a)
	verifAssert("tier/equals-spec", ab == specTierLess(a, b))
	verifAssert("tier/irreflexive", !TierLess(a, a))
	verifAssert("tier/asymmetric", !(ab && ba))
	if a.Name != b.Name {
		verifAssert("tier/total-on-distinct-names", ab || ba)
	}
	if ab && TierLess(b, c) {
		verifAssert("tier/transitive", TierLess(a, c))
	}
}

func verifPolKV(name string) PolKV {
	n := verifParam("NAMELEN", 2)
	k := model.PolicyKey{Name: verifString(name+".name", n), Namespace: verifString(name+".ns", n), Kind: verifString(name+".kind", 1)}
	o := verifF64(name + ".order")
	verifAssume(o == o)
	return PolKV{Key: k, Value: &policyMetadata{Order: o}}
}

func VerifHarness_C03_polkvless() {
	a, b, c := verifPolKV("a"), verifPolKV("b"), verifPolKV("c")
	ab, ba := PolKVLess(a, b), PolKVLess(b, a)
	if a.Value.Order != b.Value.Order {
		verifAssert("pol/by-order", ab == (a.Value.Order < b.Value.Order))
	}
	verifAssert("pol/irreflexive", !PolKVLess(a, a))
	verifAssert("pol/asymmetric", !(ab && ba))
	if a.Key != b.Key {
		verifAssert("pol/total-on-distinct-keys", ab || ba)
	}
	if ab && PolKVLess(b, c) {
		verifAssert("pol/transitive", PolKVLess(a, c))
	}
}
