package calc

import (
	"github.com/projectcalico/calico/libcalico-go/lib/backend/model"
)

// C03 (part 1): the comparators that order tiers and policies are strict weak orders equal to
// the documented rule ("ascending order, unset last, then name").
// Sym: orders (float64, non-NaN - JSON cannot carry NaN), valid flags, every byte of the names.

func verifOrder(name string) *float64 {
	if verifBool(name + ".nil") {
		return nil
	}
	f := verifF64(name)
	verifAssume(f == f) // not NaN
	return &f
}

func verifTierKey(name string) tierInfoKey {
	return tierInfoKey{Name: verifString(name+".name", verifParam("NAMELEN", 2)), Valid: verifBool(name + ".valid"), Order: verifOrder(name + ".order")}
}

// specTierLess: valid tiers first; then tiers with an order, ascending; unset order last; ties by name.
func specTierLess(a, b tierInfoKey) bool {
	if a.Valid != b.Valid {
		return a.Valid
	}
	if (a.Order == nil) != (b.Order == nil) {
		return a.Order != nil
	}
	if a.Order != nil && *a.Order != *b.Order {
		return *a.Order < *b.Order
	}
	return a.Name < b.Name
}

func VerifHarness_C03_tierless() {
	a, b, c := verifTierKey("a"), verifTierKey("b"), verifTierKey("c")
	ab, ba := TierLess(a, b), TierLess(b, a)
	verifAssert("tier/equals-spec", ab == specTierLess(a, b))
	verifAssert("tier/irreflexive", !TierLess(a, a))
	verifAssert("tier/asymmetric", !(ab && ba))
	if a.Name != b.Name {
		verifAssert("tier/total-on-distinct-names", ab || ba)
	}
	if ab && TierLess(b, c) {
		verifAssert("tier/transitive", TierLess(a, c))
	}
}

func verifPolKV(name string) PolKV {
	n := verifParam("NAMELEN", 2)
	k := model.PolicyKey{Name: verifString(name+".name", n), Namespace: verifString(name+".ns", n), Kind: verifString(name+".kind", 1)}
	o := verifF64(name + ".order")
	verifAssume(o == o)
	return PolKV{Key: k, Value: &policyMetadata{Order: o}}
}

func VerifHarness_C03_polkvless() {
	a, b, c := verifPolKV("a"), verifPolKV("b"), verifPolKV("c")
	ab, ba := PolKVLess(a, b), PolKVLess(b, a)
	if a.Value.Order != b.Value.Order {
		verifAssert("pol/by-order", ab == (a.Value.Order < b.Value.Order))
	}
	verifAssert("pol/irreflexive", !PolKVLess(a, a))
	verifAssert("pol/asymmetric", !(ab && ba))
	if a.Key != b.Key {
		verifAssert("pol/total-on-distinct-keys", ab || ba)
	}
	if ab && PolKVLess(b, c) {
		verifAssert("pol/transitive", PolKVLess(a, c))
	}
}

// verifVarString: a string of symbolic length 0..max (one fork per length) and symbolic bytes.
func verifVarString(name string, max int) string {
	return verifString(name, verifChoose(name+".len", max+1))
}

// specPolKey: the documented tie-break key "name/namespace/kind", built without fmt.
func specPolKey(k model.PolicyKey) string {
	b := make([]byte, 0, len(k.Name)+len(k.Namespace)+len(k.Kind)+2)
	b = append(b, k.Name...)
	b = append(b, '/')
	b = append(b, k.Namespace...)
	b = append(b, '/')
	b = append(b, k.Kind...)
	return string(b)
}

// VerifHarness_C03_tiebreak: equal-order policies are ordered by name first (then namespace, then
// kind), for names and namespaces of every length combination up to NAMELEN - so that a name that
// is a prefix of another, and name/namespace pairs whose plain concatenations collide, are covered.
func VerifHarness_C03_tiebreak() {
	n := verifParam("NAMELEN", 2)
	mk := func(p string) PolKV {
		k := model.PolicyKey{Name: verifVarString(p+".name", n), Namespace: verifVarString(p+".ns", n), Kind: verifString(p+".kind", 1)}
		for i := 0; i < len(k.Name); i++ {
			verifAssume(k.Name[i] != '/') // names and namespaces cannot contain '/'
		}
		for i := 0; i < len(k.Namespace); i++ {
			verifAssume(k.Namespace[i] != '/')
		}
		return PolKV{Key: k, Value: &policyMetadata{Order: 10}}
	}
	a, b := mk("a"), mk("b")
	ab, ba := PolKVLess(a, b), PolKVLess(b, a)
	verifAssert("tiebreak/equals-name-namespace-kind-key", ab == (specPolKey(a.Key) < specPolKey(b.Key)))
	verifAssert("tiebreak/asymmetric", !(ab && ba))
	if a.Key != b.Key {
		verifAssert("tiebreak/total-on-distinct-keys", ab || ba)
	}
	if a.Key.Name != b.Key.Name {
		// name decides: with '/' excluded from names, the key order is the order of name+"/"
		verifAssert("tiebreak/name-first", ab == (a.Key.Name+"/" < b.Key.Name+"/"))
	}
}
