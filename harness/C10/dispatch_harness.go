package rules

import (
	"github.com/projectcalico/calico/felix/generictables"
	"github.com/projectcalico/calico/felix/iptables"
	"github.com/projectcalico/calico/felix/proto"
	"github.com/projectcalico/calico/felix/types"
)

// C10: workload dispatch is exact and fails closed.
// Sym: every byte of the probed interface name (length forked).  Shape: the set of endpoint
// interface names, taken from a table of name families that stress the prefix tree.

var verifNameSets = [][]string{
	{"cali1"},
	{"cali1", "cali2"},
	{"cali1", "cali12", "cali123"},
	{"cali1a", "cali1b", "cali2a", "tapx"},
	{"caliabc", "caliabd", "caliab", "calib"},
	{"tap1", "tap12", "cali1", "cali12", "cali13"},
}

func verifIfaceName(name string, n int) string {
	s := verifString(name, n)
	for i := 0; i < n; i++ {
		c := s[i]
		verifAssume(c > ' ' && c < 0x7f && c != '+' && c != '*' && c != '/' && c != '!')
	}
	return s
}

func VerifHarness_C10_workload() {
	names := verifNameSets[verifChoose("nameset", verifParam("SETS", len(verifNameSets)))]
	rr := verifRenderer()
	eps := map[types.WorkloadEndpointID]*proto.WorkloadEndpoint{}
	for i, n := range names {
		eps[types.WorkloadEndpointID{OrchestratorId: "k8s", WorkloadId: n, EndpointId: "eth0"}] = &proto.WorkloadEndpoint{Name: names[i]}
	}
	chains := rr.WorkloadDispatchChains(eps)
	cm := map[string][]generictables.Rule{}
	for _, c := range chains {
		cm[c.Name] = c.Rules
	}
	lmin, lmax := verifParam("LMIN", 4), verifParam("LMAX", 7)
	l := lmin + verifChoose("len", lmax-lmin+1)
	probe := verifIfaceName("iface", l)
	for dir := 0; dir < 2; dir++ {
		p := vNewPkt()
		sets := &vSets{m: map[string]bool{}}
		top, pfx := ChainFromWorkloadDispatch, WorkloadFromEndpointPfx
		if dir == 0 {
			p.inIface = probe
		} else {
			p.outIface = probe
			top, pfx = ChainToWorkloadDispatch, WorkloadToEndpointPfx
		}
		v := vEvalRules(cm[top], p, sets, cm, 0)
		known := false
		for _, n := range names {
			if probe == n {
				known = true
				verifAssert("dispatch/known-interface-reaches-its-own-chain",
					v == vHandOff && p.reached == EndpointChainName(pfx, n, iptables.MaxChainNameLength))
			}
		}
		if !known {
			verifAssert("dispatch/unknown-interface-dropped", v == vDrop)
		}
	}
}
