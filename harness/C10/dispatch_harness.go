package rules

import (
	"github.com/projectcalico/calico/felix/generictables"
	"github.com/projectcalico/calico/felix/iptables"
	"github.com/projectcalico/calico/felix/proto"
	"github.com/projectcalico/calico/felix/types"
)

// C10: workload dispatch is exact and fails closed.
// Sym: every byte of the probed interface name (length forked).  Shape: the set of endpoint
// interface names, taken from a table of name families that stress the prefix tree.

var verifNameSets = [][]string{
	{"cali1"},
	{"cali1", "cali2"},
	{"cali1", "cali12", "cali123"},
	{"cali1a", "cali1b", "cali2a", "tapx"},
	{"caliabc", "caliabd", "caliab", "calib"},
	{"tap1", "tap12", "cali1", "cali12", "cali13"},
}

func verifIfaceName(name string, n int) string {
	s := verifString(name, n)
	for i := 0; i < n; i++ {
		c := s[i]
		verifAssume(c > ' ' && c < 0x7f && c != '+' && c != '*' && c != '/' && c != '!')
	}
	return s
}

// verifFamily: every non-empty set of at most MAXNAMES names base+suffix, suffixes being all
// strings of length 0..2 over a two-letter alphabet (7 suffixes: mixed lengths, names that are
// prefixes of each other, names that share only the base).
func verifFamily(base string, a, b string) []string {
	sfx := []string{"", a, b, a + a, a + b, b + a, b + b}
	mask := 1 + verifChoose("family-subset", 127)
	n := 0
	var out []string
	for i := 0; i < 7; i++ {
		if mask&(1<<uint(i)) != 0 {
			n++
			out = append(out, base+sfx[i])
		}
	}
	verifAssume(n <= verifParam("MAXNAMES", 3))
	return out
}

func VerifHarness_C10_workload() {
	var names []string
	if verifParam("FAMILY", 0) == 1 {
		names = verifFamily("cali", "1", "2")
	} else {
		names = verifNameSets[verifChoose("nameset", verifParam("SETS", len(verifNameSets)))]
	}
	rr := verifRenderer()
	eps := map[types.WorkloadEndpointID]*proto.WorkloadEndpoint{}
	for i, n := range names {
		eps[types.WorkloadEndpointID{OrchestratorId: "k8s", WorkloadId: n, EndpointId: "eth0"}] = &proto.WorkloadEndpoint{Name: names[i]}
	}
	chains := rr.WorkloadDispatchChains(eps)
	cm := map[string][]generictables.Rule{}
	for _, c := range chains {
		cm[c.Name] = c.Rules
	}
	lmin, lmax := verifParam("LMIN", 4), verifParam("LMAX", 7)
	l := lmin + verifChoose("len", lmax-lmin+1)
	probe := verifIfaceName("iface", l)
	for dir := 0; dir < 2; dir++ {
		p := vNewPkt()
		sets := &vSets{m: map[string]bool{}}
		top, pfx := ChainFromWorkloadDispatch, WorkloadFromEndpointPfx
		if dir == 0 {
			p.inIface = probe
		} else {
			p.outIface = probe
			top, pfx = ChainToWorkloadDispatch, WorkloadToEndpointPfx
		}
		v := vEvalRules(cm[top], p, sets, cm, 0)
		known := false
		for _, n := range names {
			if probe == n {
				known = true
				verifAssert("dispatch/known-interface-reaches-its-own-chain",
					v == vHandOff && p.reached == EndpointChainName(pfx, n, iptables.MaxChainNameLength))
			}
		}
		if !known {
			verifAssert("dispatch/unknown-interface-dropped", v == vDrop)
		}
	}
}


// VerifHarness_C10_host: host endpoint dispatch.  Known host interfaces reach their own chain;
// anything else goes to the wildcard host endpoint's chain when one is configured (except egress
// to a workload interface, which skips wildcard egress policy) and to no policy chain otherwise.
func VerifHarness_C10_host() {
	names := verifFamily("eth", "0", ".")
	rr := verifRenderer()
	rr.WorkloadIfacePrefixes = []string{"cali"}
	eps := map[string]types.HostEndpointID{}
	for _, n := range names {
		eps[n] = types.HostEndpointID{EndpointId: "hep-" + n}
	}
	def := ""
	if verifChoose("wildcard-hep", 2) == 1 {
		def = "any-interface-at-all"
	}
	chains := rr.HostDispatchChains(eps, def, false)
	cm := map[string][]generictables.Rule{}
	for _, c := range chains {
		cm[c.Name] = c.Rules
	}
	lmin, lmax := verifParam("LMIN", 3), verifParam("LMAX", 6)
	l := lmin + verifChoose("len", lmax-lmin+1)
	probe := verifIfaceName("iface", l)
	for dir := 0; dir < 2; dir++ {
		p := vNewPkt()
		sets := &vSets{m: map[string]bool{}}
		top, pfx := ChainDispatchFromHostEndpoint, HostFromEndpointPfx
		if dir == 0 {
			p.inIface = probe
		} else {
			p.outIface = probe
			top, pfx = ChainDispatchToHostEndpoint, HostToEndpointPfx
		}
		v := vEvalRules(cm[top], p, sets, cm, 0)
		known := false
		for _, n := range names {
			if probe == n {
				known = true
				verifAssert("host/known-interface-reaches-its-own-chain",
					v == vHandOff && p.reached == EndpointChainName(pfx, n, iptables.MaxChainNameLength))
			}
		}
		if known {
			continue
		}
		toWorkload := dir == 1 && l >= 4 && probe[:4] == "cali"
		if def != "" && !toWorkload {
			verifAssert("host/unknown-interface-goes-to-wildcard-endpoint",
				v == vHandOff && p.reached == EndpointChainName(pfx, def, iptables.MaxChainNameLength))
		} else {
			verifAssert("host/unknown-interface-reaches-no-endpoint-chain", v != vHandOff && v != vAccept && v != vDrop)
		}
	}
}
