package polprog

import (
	"encoding/binary"

	"github.com/projectcalico/calico/felix/bpf/asm"
	"github.com/projectcalico/calico/felix/bpf/maps"
	"github.com/projectcalico/calico/felix/bpf/state"
	"github.com/projectcalico/calico/felix/proto"
)

// C11: BPF policy programs reach the reference verdict.
// bpfeval: a small eBPF interpreter over the instructions polprog produces, run on a symbolic
// cali_tc_state image (addresses, ports, protocol, ICMP type/code, flags).  IP-set membership of
// THE packet is a free boolean per (set id, leg), the same boolean the reference consults.

const (
	vKindScalar = 0
	vKindState  = 1
	vKindStack  = 2
	vKindCtx    = 3
	vKindMapFD  = 4
)

type vReg struct {
	kind int
	v    uint64 // scalar value, pointer offset, or map fd
}

type vBPF struct {
	regs   [11]vReg
	st     [512]byte // the cali_tc_state image
	stack  [512]byte // addressed as r10 - 512 .. r10 - 1
	sets   map[string]bool
	polRC  uint32
	jumped bool
	subprogs int
}

const (
	vFDIPSets = 11
	vFDState  = 12
	vFDJump   = 13
	vFDPol    = 14
	vPolIdx    = 7
	vPolStride = 1000
)

func (m *vBPF) setIn(id uint64, leg string) bool {
	k := leg + ":" + string(rune('a'+int(id)))
	if v, ok := m.sets[k]; ok {
		return v
	}
	v := verifBool("set:" + k)
	m.sets[k] = v
	return v
}

func (m *vBPF) mem(r vReg, off int16, size int) []byte {
	a := int64(r.v) + int64(off)
	switch r.kind {
	case vKindState:
		if a < 0 || a+int64(size) > int64(len(m.st)) {
			verifFail("bpf/state-access-out-of-bounds")
		}
		return m.st[a : a+int64(size)]
	case vKindStack:
		a += 512
		if a < 0 || a+int64(size) > 512 {
			verifFail("bpf/stack-access-out-of-bounds")
		}
		return m.stack[a : a+int64(size)]
	}
	verifFail("bpf/memory-access-through-non-pointer")
	return nil
}

func vLoad(b []byte) uint64 {
	var x uint64
	for i := len(b) - 1; i >= 0; i-- {
		x = x<<8 | uint64(b[i])
	}
	return x
}

func vStore(b []byte, x uint64) {
	for i := range b {
		b[i] = byte(x)
		x >>= 8
	}
}

func vSizeOf(op uint8) int {
	switch op & 0x18 {
	case asm.MemOpSize8:
		return 1
	case asm.MemOpSize16:
		return 2
	case asm.MemOpSize32:
		return 4
	}
	return 8
}

// run executes prog (one assembled block); returns when the program exits or tail-calls.
// The verdict is the pol_rc field of the state at that point.
func (m *vBPF) run(progs []asm.Insns) {
	prog := progs[0]
	m.regs[10] = vReg{vKindStack, 0}
	m.regs[1] = vReg{vKindCtx, 0}
	pc := 0
	for steps := 0; ; steps++ {
		if steps > 20000 || pc < 0 || pc >= len(prog) {
			verifFail("bpf/runaway-program")
		}
		ins := prog[pc].Instruction
		op := ins[0]
		dst, src := int(ins[1]&0xf), int(ins[1]>>4)
		off := int16(binary.LittleEndian.Uint16(ins[2:4]))
		imm := int32(binary.LittleEndian.Uint32(ins[4:8]))
		pc++
		switch op & asm.OpClassMask {
		case asm.OpClassLoadImm: // LD_IMM64 (two slots)
			lo := uint64(uint32(imm))
			hi := uint64(binary.LittleEndian.Uint32(prog[pc].Instruction[4:8]))
			pc++
			if src == asm.RPseudoMapFD {
				m.regs[dst] = vReg{vKindMapFD, lo}
			} else {
				m.regs[dst] = vReg{vKindScalar, hi<<32 | lo}
			}
		case asm.OpClassLoadReg:
			n := vSizeOf(op)
			if m.regs[src].kind == vKindCtx {
				m.regs[dst] = vReg{vKindScalar, 0} // skb->cb[] jump indexes: not used for the verdict
			} else {
				m.regs[dst] = vReg{vKindScalar, vLoad(m.mem(m.regs[src], off, n))}
			}
		case asm.OpClassStoreReg:
			n := vSizeOf(op)
			if m.regs[src].kind != vKindScalar {
				verifFail("bpf/pointer-spilled")
			}
			vStore(m.mem(m.regs[dst], off, n), m.regs[src].v)
		case asm.OpClassStoreImm:
			n := vSizeOf(op)
			vStore(m.mem(m.regs[dst], off, n), uint64(int64(imm)))
		case asm.OpClassALU64, asm.OpClassALU32:
			is64 := op&asm.OpClassMask == asm.OpClassALU64
			var s vReg
			if op&asm.ALUSrcReg != 0 {
				s = m.regs[src]
			} else {
				s = vReg{vKindScalar, uint64(int64(imm))}
			}
			d := m.regs[dst]
			aluop := op & 0xf0
			if aluop == asm.ALUOpMov {
				if !is64 {
					s = vReg{vKindScalar, uint64(uint32(s.v))}
				}
				m.regs[dst] = s
				break
			}
			if d.kind != vKindScalar {
				// pointer arithmetic: only add of a scalar
				if aluop != asm.ALUOpAdd || s.kind != vKindScalar || !is64 {
					verifFail("bpf/unsupported-pointer-arithmetic")
				}
				m.regs[dst] = vReg{d.kind, d.v + s.v}
				break
			}
			if s.kind != vKindScalar {
				if aluop == asm.ALUOpAdd && is64 {
					m.regs[dst] = vReg{s.kind, d.v + s.v}
					break
				}
				verifFail("bpf/pointer-as-alu-source")
			}
			x, y := d.v, s.v
			if !is64 {
				x, y = uint64(uint32(x)), uint64(uint32(y))
			}
			var r uint64
			switch aluop {
			case asm.ALUOpAdd:
				r = x + y
			case asm.ALUOpSub:
				r = x - y
			case asm.ALUOpOr:
				r = x | y
			case asm.ALUOpAnd:
				r = x & y
			case asm.ALUOpXOR:
				r = x ^ y
			case asm.ALUOpShiftL:
				r = x << (y & 63)
			case asm.ALUOpShiftR:
				r = x >> (y & 63)
			case asm.ALUOpEndian:
				// to/from big endian of the low imm bits (host is little endian)
				switch imm {
				case 16:
					r = uint64(uint16(x)>>8 | uint16(x)<<8)
				case 32:
					v := uint32(x)
					r = uint64(v>>24 | (v>>8)&0xff00 | (v<<8)&0xff0000 | v<<24)
				default:
					verifFail("bpf/unsupported-endian-width")
				}
			default:
				verifFail("bpf/unsupported-alu-op")
			}
			if !is64 {
				r = uint64(uint32(r))
			}
			m.regs[dst] = vReg{vKindScalar, r}
		case asm.OpClassJump64, asm.OpClassJump32:
			jop := op & 0xf0
			if op&asm.OpClassMask == asm.OpClassJump64 {
				if jop == asm.JumpOpExit {
					return
				}
				if jop == asm.JumpOpCall {
					switch imm {
					case 1: // bpf_map_lookup_elem(map, key)
						if m.regs[1].kind != vKindMapFD {
							verifFail("bpf/lookup-without-map")
						}
						switch m.regs[1].v {
						case vFDState:
							m.regs[0] = vReg{vKindState, 0}
						case vFDIPSets:
							key := m.mem(m.regs[2], 0, 20)
							id := binary.BigEndian.Uint64(key[4:12])
							leg := "dst"
							if int16(m.regs[2].v) == offSrcIPSetKey {
								leg = "src"
							}
							hit := uint64(0)
							if m.setIn(id, leg) {
								hit = 1
							}
							m.regs[0] = vReg{vKindScalar, hit}
						default:
							verifFail("bpf/lookup-in-unknown-map")
						}
					case 12: // bpf_tail_call
						if m.regs[2].kind == vKindMapFD && m.regs[2].v == vFDPol {
							// policy jump map: continue in the sub-program at that index
							idx := int(m.regs[3].v)
							k := (idx - vPolIdx) / vPolStride
							if idx < 0 || (idx-vPolIdx)%vPolStride != 0 || k < 1 || k >= len(progs) {
								verifFail("bpf/tail-call-to-unknown-sub-program")
							}
							prog = progs[k]
							pc = 0
							for r := range m.regs {
								m.regs[r] = vReg{}
							}
							m.regs[10] = vReg{vKindStack, 0}
							m.regs[1] = vReg{vKindCtx, 0}
							m.subprogs++
							break
						}
						// allow/deny jump map: leaves the policy program
						m.jumped = true
						return
					default:
						verifFail("bpf/unknown-helper")
					}
					break
				}
				if jop == asm.JumpOpA {
					pc += int(off)
					break
				}
			}
			var y uint64
			if op&asm.ALUSrcReg != 0 {
				y = m.regs[src].v
			} else {
				y = uint64(int64(imm))
			}
			x := m.regs[dst].v
			if m.regs[dst].kind != vKindScalar {
				// null check of a pointer returned by a lookup: pointers are non-null
				x = 1
			}
			if op&asm.OpClassMask == asm.OpClassJump32 {
				x, y = uint64(uint32(x)), uint64(uint32(y))
			}
			var take bool
			switch jop {
			case asm.JumpOpEq:
				take = x == y
			case asm.JumpOpNE:
				take = x != y
			case asm.JumpOpGT:
				take = x > y
			case asm.JumpOpGE:
				take = x >= y
			case asm.JumpOpLT:
				take = x < y
			case asm.JumpOpLE:
				take = x <= y
			case asm.JumpOpSet:
				take = x&y != 0
			default:
				verifFail("bpf/unsupported-jump-op")
			}
			if take {
				pc += int(off)
			}
		default:
			verifFail("bpf/unsupported-instruction-class")
		}
	}
}

// ---- harness ----

type vIDs struct{}

func (vIDs) GetNoAlloc(id string) uint64 {
	switch id {
	case "set-a":
		return 1
	case "set-b":
		return 2
	case "np-dst":
		return 3
	}
	return 9
}

type vbRule struct {
	rng    int
	action string
	ipset  bool
}

var vbRanges = [][2]int32{{80, 89}, {85, 95}}
var vbActions = []string{"allow", "deny", "next-tier", "log"}
var vbNets = []string{"10.0.0.0/8", "172.16.0.0/12"} // disjoint: a CIDR list whose later entries matter

func (r vbRule) proto() *proto.Rule {
	pr := &proto.Rule{Action: r.action}
	if r.rng < len(vbRanges) {
		pr.Protocol = &proto.Protocol{NumberOrName: &proto.Protocol_Name{Name: "tcp"}}
		pr.DstPorts = []*proto.PortRange{{First: vbRanges[r.rng][0], Last: vbRanges[r.rng][1]}}
		pr.SrcNet = vbNets[:1+r.rng]
	}
	if r.ipset {
		pr.SrcIpSetIds = []string{"set-a"}
		pr.NotDstIpSetIds = []string{"set-b"}
	}
	return pr
}

func vbInNet(a uint32, base uint32, plen uint) bool {
	m := uint32(0xffffffff) << (32 - plen)
	return a&m == base&m
}

func (r vbRule) matches(m *vBPF, proto uint8, src uint32, dport uint16) bool {
	ok := true
	if r.rng < len(vbRanges) {
		net := vbInNet(src, 0x0a000000, 8)
		if r.rng == 1 {
			net = net || vbInNet(src, 0xac100000, 12)
		}
		ok = proto == 6 && int32(dport) >= vbRanges[r.rng][0] && int32(dport) <= vbRanges[r.rng][1] && net
	}
	if r.ipset {
		ok = ok && m.setIn(1, "src") && !m.setIn(2, "dst")
	}
	return ok
}

type vbTier struct {
	pass bool
	pols [][]vbRule
}

func VerifHarness_C11_workload() {
	from := verifParam("FROM", 0)
	count := verifParam("COUNT", 64)
	stride := verifParam("STRIDE", 1)
	shape := from + verifChoose("shape", count)*stride
	digit := func(radix int) int {
		d := shape % radix
		shape /= radix
		return d
	}
	mkRule := func() vbRule { return vbRule{rng: digit(3), action: vbActions[digit(4)], ipset: digit(2) == 1} }
	var tiers []vbTier
	nt := 1 + digit(2)
	for ti := 0; ti < nt; ti++ {
		t := vbTier{pass: digit(2) == 1}
		np := 1 + digit(2)
		for pi := 0; pi < np; pi++ {
			n := 1 + digit(2)
			var rs []vbRule
			for i := 0; i < n; i++ {
				rs = append(rs, mkRule())
			}
			t.pols = append(t.pols, rs)
		}
		tiers = append(tiers, t)
	}
	hasProfile := digit(2) == 1
	var prof []vbRule
	if hasProfile {
		prof = []vbRule{{rng: digit(3), action: vbActions[digit(2)]}}
	}

	var rules Rules
	id := uint64(100)
	for ti, t := range tiers {
		bt := Tier{Name: "tier" + string(rune('a'+ti)), EndAction: TierEndDeny, EndRuleID: id}
		id++
		if t.pass {
			bt.EndAction = TierEndPass
		}
		for pi, rs := range t.pols {
			pol := Policy{Kind: "GlobalNetworkPolicy", Name: bt.Name + ".p" + string(rune('0'+pi))}
			for _, r := range rs {
				pol.Rules = append(pol.Rules, Rule{Rule: r.proto(), MatchID: id})
				id++
			}
			bt.Policies = append(bt.Policies, pol)
		}
		rules.Tiers = append(rules.Tiers, bt)
	}
	if hasProfile {
		pol := Policy{Kind: "Profile", Name: "prof1"}
		for _, r := range prof {
			pol.Rules = append(pol.Rules, Rule{Rule: r.proto(), MatchID: id})
			id++
		}
		rules.Profiles = []Profile{pol}
	}
	rules.NoProfileMatchID = id

	opts := []Option{WithAllowDenyJumps(1, 2)}
	maxJumps := verifParam("MAXJUMPS", 0)
	if maxJumps > 0 {
		opts = append(opts, WithPolicyMapIndexAndStride(vPolIdx, vPolStride))
	}
	b := NewBuilder(vIDs{}, maps.FD(vFDIPSets), maps.FD(vFDState), maps.FD(vFDJump), maps.FD(vFDPol), opts...)
	if maxJumps > 0 {
		// force the builder to split the program into tail-called sub-programs every few jumps, so
		// that splits land between rules, inside CIDR lists and inside port lists
		b.maxJumpsPerProgram = maxJumps
	}
	progs, err := b.Instructions(rules)
	verifAssert("bpf/builds", err == nil && len(progs) >= 1 && (maxJumps > 0 || len(progs) == 1))
	if err != nil || len(progs) < 1 {
		return
	}
	if len(progs) > 1 {
		verifReach("bpf/split-into-sub-programs")
	}

	m := &vBPF{sets: map[string]bool{}}
	proto8 := verifU8("pkt.proto")
	src := verifU32("pkt.src")
	dst := verifU32("pkt.dst")
	sport := verifU16("pkt.sport")
	dport := verifU16("pkt.dport")
	binary.BigEndian.PutUint32(m.st[8:], src)
	binary.BigEndian.PutUint32(m.st[8+16:], dst)
	binary.BigEndian.PutUint32(m.st[8+32:], dst)
	binary.BigEndian.PutUint32(m.st[8+48:], dst)
	binary.LittleEndian.PutUint16(m.st[8+88:], sport)
	binary.LittleEndian.PutUint16(m.st[8+90:], dport)
	binary.LittleEndian.PutUint16(m.st[8+92:], dport)
	binary.LittleEndian.PutUint16(m.st[8+94:], dport)
	m.st[8+96] = proto8
	m.run(progs)
	rc := binary.LittleEndian.Uint32(m.st[8+84:])
	verifAssert("bpf/decides", rc == uint32(state.PolicyAllow) || rc == uint32(state.PolicyDeny))

	// reference verdict (Calico semantics; no staged policies reach the BPF builder)
	want := false
	decidedAll := false
	for _, t := range tiers {
		decided := ""
		for _, rs := range t.pols {
			for _, r := range rs {
				if decided == "" && r.action != "log" && r.matches(m, proto8, src, dport) {
					decided = r.action
				}
			}
		}
		if decided == "allow" {
			want, decidedAll = true, true
			break
		}
		if decided == "deny" || (decided == "" && !t.pass) {
			want, decidedAll = false, true
			break
		}
	}
	if !decidedAll && hasProfile {
		for _, r := range prof {
			if !decidedAll && r.action != "log" && r.matches(m, proto8, src, dport) {
				want, decidedAll = r.action == "allow", true
			}
		}
	}
	verifAssert("bpf/verdict-equals-reference", (rc == uint32(state.PolicyAllow)) == want)
}
