package ip

import "encoding/binary"

// C36: CIDR trie lookups agree with plain prefix arithmetic.
// Sym: every CIDR (32-bit address + prefix length 0..32, normalised), the probe CIDR,
// insert-or-delete per step.  Shape: k steps (param K).

type verifRef struct {
	c    V4CIDR
	v    int
	live bool
}

func verifV4CIDR(name string) V4CIDR {
	a := verifU32(name + ".addr")
	p := verifU8(name + ".plen")
	verifAssume(p <= 32)
	var c V4CIDR
	m := uint32(0xffffffff) << (32 - p) // Go semantics: shift by 32 gives 0
	binary.BigEndian.PutUint32(c.addr[:], a&m)
	c.prefix = p
	return c
}

// contains: p ⊇ q by plain prefix arithmetic (independent of ContainsV4/CommonPrefix).
func verifContains(p, q V4CIDR) bool {
	if p.prefix > q.prefix {
		return false
	}
	m := uint32(0xffffffff) << (32 - p.prefix)
	return q.addr.AsUint32()&m == p.addr.AsUint32()
}

func verifBuild(k int) (*CIDRTrie, []verifRef) {
	t := NewCIDRTrie()
	var ref []verifRef
	for i := 0; i < k; i++ {
		c := verifV4CIDR("c")
		del := verifBool("del")
		found := -1
		for j := range ref {
			if ref[j].live && ref[j].c == c {
				found = j
			}
		}
		if del {
			t.Delete(c)
			if found >= 0 {
				ref[found].live = false
			}
		} else {
			t.Update(c, i+1)
			if found >= 0 {
				ref[found].v = i + 1
			} else {
				ref = append(ref, verifRef{c, i + 1, true})
			}
		}
	}
	return t, ref
}

// VerifHarness_C36_lookup: after k symbolic inserts/deletes, Get/LPM/Covers/Intersects of a
// symbolic probe agree with the list-based definition.
func VerifHarness_C36_lookup() {
	k := verifParam("K", 3)
	t, ref := verifBuild(k)
	q := verifV4CIDR("q")

	// Get
	want := 0
	for _, e := range ref {
		if e.live && e.c == q {
			want = e.v
		}
	}
	got := t.Get(q)
	if want == 0 {
		verifAssert("get-absent", got == nil)
	} else {
		verifAssert("get-present", got != nil && got.(int) == want)
	}

	// Covers: some stored prefix contains q
	best := -1
	for j, e := range ref {
		if e.live && verifContains(e.c, q) {
			if best < 0 || e.c.prefix > ref[best].c.prefix {
				best = j
			}
		}
	}
	verifAssert("covers", t.Covers(q) == (best >= 0))

	// Intersects: some stored prefix inside q
	inside := false
	for _, e := range ref {
		if e.live && verifContains(q, e.c) {
			inside = true
		}
	}
	verifAssert("intersects", t.Intersects(q) == inside)
	// "overlaps" as pool_controller uses it
	overlap := best >= 0 || inside
	verifAssert("overlaps", (t.Get(q) != nil || t.Intersects(q) || t.Covers(q)) == overlap)
}

// VerifHarness_C36_lpm: longest-prefix match of a host address.
func VerifHarness_C36_lpm() {
	k := verifParam("K", 3)
	t, ref := verifBuild(k)
	// LPM: longest stored prefix containing a host address (every caller passes a /32;
	// for shorter arguments LPM matches on the argument's base address, see DESIGN C36).
	h := verifV4CIDR("h")
	verifAssume(h.prefix == 32)
	{
		hb := -1
		for j, e := range ref {
			if e.live && verifContains(e.c, h) {
				if hb < 0 || e.c.prefix > ref[hb].c.prefix {
					hb = j
				}
			}
		}
		lc, ld := t.LPM(h)
		if hb < 0 {
			verifAssert("lpm-none", ld == nil)
		} else {
			verifAssert("lpm-some", ld != nil && ld.(int) == ref[hb].v && lc == CIDR(ref[hb].c))
		}
	}

}

// VerifHarness_C36_enumerate: ToSlice / LookupPath / ClosestDescendants against the definition.
func VerifHarness_C36_enumerate() {
	k := verifParam("K", 3)
	t, ref := verifBuild(k)
	q := verifV4CIDR("q")

	nlive := 0
	for _, e := range ref {
		if e.live {
			nlive++
		}
	}
	all := t.ToSlice()
	verifAssert("toslice-len", len(all) == nlive)
	for _, e := range ref {
		if !e.live {
			continue
		}
		n := 0
		for _, a := range all {
			if a.CIDR == CIDR(e.c) && a.Data.(int) == e.v {
				n++
			}
		}
		verifAssert("toslice-each-once", n == 1)
	}

	// LookupPath(q): if q itself is stored, every stored prefix containing q (q included),
	// by increasing prefix length; otherwise empty.
	path := t.LookupPath(nil, q)
	qStored := false
	for _, e := range ref {
		if e.live && e.c == q {
			qStored = true
		}
	}
	ncont := 0
	if qStored {
		for _, e := range ref {
			if e.live && verifContains(e.c, q) {
				ncont++
				n := 0
				for _, pe := range path {
					if pe.CIDR == CIDR(e.c) && pe.Data.(int) == e.v {
						n++
					}
				}
				verifAssert("path-has-each-ancestor", n == 1)
			}
		}
	}
	verifAssert("path-len", len(path) == ncont)
	for i := 1; i < len(path); i++ {
		verifAssert("path-ordered", path[i-1].CIDR.Prefix() < path[i].CIDR.Prefix())
	}

	// ClosestDescendants(q): stored p strictly inside q with no stored r strictly between
	// (contract: parent is itself stored - both callers, memberDeduplicator.Add/Remove, pass a
	// stored CIDR; for an absent parent that is not an intermediate node the code returns nil)
	if !qStored {
		return
	}
	desc := t.ClosestDescendants(nil, q)
	nd := 0
	for _, e := range ref {
		if !e.live || !verifContains(q, e.c) || e.c == q {
			continue
		}
		closest := true
		for _, r := range ref {
			if r.live && r.c != e.c && r.c != q && verifContains(q, r.c) && verifContains(r.c, e.c) {
				closest = false
			}
		}
		n := 0
		for _, d := range desc {
			if d == CIDR(e.c) {
				n++
			}
		}
		if closest {
			nd++
			verifAssert("desc-has-closest", n == 1)
		} else {
			verifAssert("desc-no-farther", n == 0)
		}
	}
	verifAssert("desc-len", len(desc) == nd)
}

// VerifHarness_C36_prefix: V4CommonPrefix / ContainsV4 against bit arithmetic, fully symbolic.
func VerifHarness_C36_prefix() {
	a := verifV4CIDR("a")
	b := verifV4CIDR("b")
	cp := V4CommonPrefix(a, b)
	verifAssert("cp-contains-both", verifContains(cp, a) && verifContains(cp, b))
	verifAssert("cp-normalised", cp.addr.AsUint32()&^(uint32(0xffffffff)<<(32-cp.prefix)) == 0)
	// maximal: one bit longer no longer contains both (unless limited by an input's own length)
	if cp.prefix < a.prefix && cp.prefix < b.prefix {
		bitA := a.addr.NthBit(uint(cp.prefix) + 1)
		bitB := b.addr.NthBit(uint(cp.prefix) + 1)
		verifAssert("cp-maximal", bitA != bitB)
	}
	verifAssert("cp-symmetric", V4CommonPrefix(b, a) == cp)
	verifAssert("contains-agrees", a.ContainsV4(b.addr) == verifContains(a, V4CIDR{addr: b.addr, prefix: 32}))
	verifAssert("cp-eq-iff-contains", (cp == a) == verifContains(a, b))
}

// VerifHarness_C36_delete: Delete(x) removes exactly x.  Three symbolic stored prefixes, then a
// symbolic delete; afterwards each stored prefix other than x is still present with its value
// and x is gone.  (Targeted: cheap assertions so that 4 operations fit the quick tier.)
func VerifHarness_C36_delete() {
	n := verifParam("N", 3)
	t := NewCIDRTrie()
	cs := make([]V4CIDR, n)
	for i := 0; i < n; i++ {
		cs[i] = verifV4CIDR("c")
		for j := 0; j < i; j++ {
			verifAssume(cs[j] != cs[i])
		}
		t.Update(cs[i], i+1)
	}
	x := verifV4CIDR("x")
	t.Delete(x)
	for i := 0; i < n; i++ {
		got := t.Get(cs[i])
		if cs[i] == x {
			verifAssert("deleted-gone", got == nil)
		} else {
			verifAssert("others-kept", got != nil && got.(int) == i+1)
		}
	}
	verifAssert("x-gone", t.Get(x) == nil)
}
