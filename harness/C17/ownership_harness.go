package ownershippol

import (
	"github.com/vishvananda/netlink"
	"golang.org/x/sys/unix"

	"github.com/projectcalico/calico/felix/dataplane/linux/dataplanedefs"
)

// C17 (ownership half): which kernel routes Felix treats as its own (and may therefore delete)
// for a free route protocol, a free configured device route protocol and every interface class.
// A route that is not ours is left alone by the route table's resync.
func VerifHarness_C17_ownership() {
	devProto := netlink.RouteProtocol(verifU8("device-route-proto"))
	removeExternal := verifBool("remove-external-routes")
	ownIPIP := verifBool("program-ipip-cluster-routes")
	pol := NewMainTable("vxlan.calico", devProto, []string{"cali", "tap"}, removeExternal, ownIPIP)
	bgpPeerIface := verifBool("iface-is-workload-bgp-peer")
	if verifBool("peer-callback-installed") {
		pol.IsWorkloadBGPPeerIface = func(string) bool { return bgpPeerIface }
	} else {
		bgpPeerIface = false
	}
	ifaces := []string{"*NoOIF*", "cali1234", "tapabcd", "eth0", "vxlan.calico", "tunl0", dataplanedefs.BPFInDev, "calx"}
	kind := verifChoose("iface", len(ifaces))
	name := ifaces[kind]
	proto := netlink.RouteProtocol(verifU8("route-proto"))
	got := pol.RouteIsOurs(name, &netlink.Route{Protocol: proto})

	// the protocols only Calico uses / Calico also uses
	exclusive := proto == devProto
	shared := proto == devProto
	if devProto == unix.RTPROT_BOOT {
		exclusive = proto == dataplanedefs.DefaultRouteProto
		shared = proto == unix.RTPROT_BOOT || proto == dataplanedefs.DefaultRouteProto
	}
	workload := kind == 1 || kind == 2
	special := kind == 4 || kind == 6
	want := exclusive
	switch {
	case exclusive:
	case kind == 0: // no interface: only by exclusive protocol
		want = false
	case workload && removeExternal:
		want = !(proto == unix.RTPROT_BIRD && bgpPeerIface)
	case workload:
		want = shared
	case kind == 5: // the IPIP device: BIRD's routes only when Felix programs the IPIP routes
		want = ownIPIP && proto == unix.RTPROT_BIRD
	default:
		want = special
	}
	verifAssert("ownership/equals-documented-rule", got == want)
	if !workload && !special && kind != 5 && !exclusive {
		verifAssert("ownership/foreign-routes-on-foreign-interfaces-never-ours", !got)
	}
	verifAssert("ownership/interfaces-always-tracked", pol.IfaceIsOurs(name))
}
