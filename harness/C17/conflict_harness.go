package routetable

import (
	"time"

	"github.com/vishvananda/netlink"

	"github.com/projectcalico/calico/felix/ifacemonitor"
	"github.com/projectcalico/calico/felix/ip"
)

// C17 (conflict-resolution half): several route classes / interfaces want a route for the same
// destination; the route Felix wants in the kernel (kernelRoutes.Desired()) is the one of the
// highest-priority class (lowest RouteClass) among the candidates whose interface exists and is
// up, ties between interfaces of one class going to the higher interface index; no candidate -> no
// desired route.  Sym: interface indexes (free), interface states; shape: which (class, interface)
// pairs want the destination, K later changes (route removal, interface down/up/deleted).

type verifOwn struct{}

func (verifOwn) RouteIsOurs(string, *netlink.Route) bool { return true }
func (verifOwn) IfaceIsOurs(string) bool                 { return true }
func (verifOwn) IfaceShouldHaveARPEntries(string) bool   { return false }
func (verifOwn) IfaceShouldHaveGracePeriod(string) bool  { return false }

type verifOpRec struct{}

func (verifOpRec) RecordOperation(string) {}

func VerifHarness_C17_conflict() {
	rt := New(verifOwn{}, 4, 10*time.Second, nil, 80, false, 254, verifOpRec{}, nil)
	ifaces := []string{"cali1", "cali2", "vxlan.calico", "eth0"}
	// interface indexes: the two workload interfaces in either order, the others in either order
	idx := [4]int{5, 6, 7, 8}
	if verifChoose("workload-index-order", 2) == 1 {
		idx[0], idx[1] = idx[1], idx[0]
	}
	if verifParam("DEVORDER", 0) == 1 && verifChoose("device-index-order", 2) == 1 {
		idx[2], idx[3] = 3, 4
	}
	var present, up [4]bool
	setState := func(i int, s int) { // 0 not present, 1 down, 2 up
		switch s {
		case 0:
			rt.OnIfaceStateChanged(ifaces[i], idx[i], ifacemonitor.StateNotPresent)
			present[i], up[i] = false, false
		case 1:
			rt.OnIfaceStateChanged(ifaces[i], idx[i], ifacemonitor.StateDown)
			present[i], up[i] = true, false
		default:
			rt.OnIfaceStateChanged(ifaces[i], idx[i], ifacemonitor.StateUp)
			present[i], up[i] = true, true
		}
	}
	for i := range ifaces {
		sch := verifChoose("state", 3)
		for st := 0; st < 3; st++ {
			if st == sch {
				setState(i, st)
			}
		}
	}
	cidr := ip.MustParseCIDROrIP("10.0.1.0/26")
	key := RouteKey{CIDR: cidr}
	// candidates: (class, iface) pairs
	classes := []RouteClass{RouteClassLocalWorkload, RouteClassLocalWorkload, RouteClassVXLANTunnel, RouteClassVXLANSameSubnet, RouteClassIPIPTunnel}[:verifParam("CANDS", 4)]
	cIface := []int{0, 1, 2, 3, 3}
	var wants [5]bool
	for c := range classes {
		wants[c] = verifBool("wants")
		if wants[c] {
			rt.RouteUpdate(classes[c], ifaces[cIface[c]], Target{RouteKey: key, GW: ip.FromString("192.168.0.9")})
		}
	}
	k := verifParam("K", 1)
	for s := 0; s < k; s++ {
		if verifChoose("op", 2) == 0 {
			c := verifChoose("class", len(classes))
			rt.RouteRemove(classes[c], ifaces[cIface[c]], key)
			wants[c] = false
		} else {
			ich, sch := verifChoose("iface", 4), verifChoose("state", 3)
			for i := range ifaces {
				for st := 0; st < 3; st++ {
					if i == ich && st == sch {
						setState(i, st)
					}
				}
			}
		}
	}
	// reference winner
	best := -1
	for c := range classes {
		i := cIface[c]
		if !wants[c] || !present[i] || !up[i] {
			continue
		}
		if best < 0 || classes[c] < classes[best] || (classes[c] == classes[best] && idx[i] > idx[cIface[best]]) {
			best = c
		}
	}
	got, ok := rt.kernelRoutes.Desired().Get(key)
	verifAssert("conflict/route-desired-iff-some-usable-candidate", ok == (best >= 0))
	if ok && best >= 0 {
		verifAssert("conflict/winner-is-highest-priority-class-on-an-up-interface", got.Ifindex == idx[cIface[best]])
	}
}
