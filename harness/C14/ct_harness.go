package conntrack

import (
	"time"

	"golang.org/x/sys/unix"

	v4 "github.com/projectcalico/calico/felix/bpf/conntrack/v4"
	"github.com/projectcalico/calico/felix/bpf/conntrack/timeouts"
	"github.com/projectcalico/calico/felix/timeshim"
)

// C14 (userspace half): conntrack cleanup never selects a live connection.
// Sym: all 88 bytes of the conntrack value, protocol, kernel time, all timeouts (>= 0).

func verifValue(name string) v4.Value {
	var v v4.Value
	b := verifBytes(name, v4.ValueSize)
	copy(v[:], b)
	return v
}

func verifTimeouts() timeouts.Timeouts {
	t := timeouts.Timeouts{
		TCPSynSent:     time.Duration(verifI64("t.syn")),
		TCPEstablished: time.Duration(verifI64("t.est")),
		TCPFinsSeen:    time.Duration(verifI64("t.fins")),
		TCPResetSeen:   time.Duration(verifI64("t.rst")),
		UDPTimeout:     time.Duration(verifI64("t.udp")),
		GenericTimeout: time.Duration(verifI64("t.gen")),
		ICMPTimeout:    time.Duration(verifI64("t.icmp")),
	}
	verifAssume(t.TCPSynSent >= 0 && t.TCPEstablished >= 0 && t.TCPFinsSeen >= 0 && t.TCPResetSeen >= 0)
	verifAssume(t.UDPTimeout >= 0 && t.GenericTimeout >= 0 && t.ICMPTimeout >= 0)
	return t
}

func verifLE64(b []byte) int64 {
	var x uint64
	for i := 7; i >= 0; i-- {
		x = x<<8 | uint64(b[i])
	}
	return int64(x)
}

// verifSpecExpired: the documented expiry rule, read straight from the byte image
// (struct calico_ct_value layout as documented in v4/map.go), not through Data().
func verifSpecExpired(t timeouts.Timeouts, now int64, proto uint8, v v4.Value) bool {
	lastSeen := verifLE64(v[8:16])
	rstTime := verifLE64(v[0:8])
	age := time.Duration(now - lastSeen)
	flags := uint32(v[17]) | uint32(v[23])<<8 | uint32(v[18])<<16 | uint32(v[19])<<24
	dsr := flags&(1<<1) != 0
	// leg flag word: little-endian uint32 at leg offset 16; bits syn=0 ack=1 fin=2 rst=3
	a := v[24+16]
	b := v[48+16]
	aSyn, aAck, aFin, aRst := a&1 != 0, a&2 != 0, a&4 != 0, a&8 != 0
	bSyn, bAck, bFin, bRst := b&1 != 0, b&2 != 0, b&4 != 0, b&8 != 0
	switch proto {
	case 6:
		if (aRst || bRst) && age > t.TCPResetSeen {
			return true
		}
		fins := (aFin && bFin) || (dsr && (aFin || bFin))
		if fins && age > t.TCPFinsSeen {
			return true
		}
		if (aSyn && aAck && bSyn && bAck) || dsr {
			return (rstTime != 0 && age > 120*time.Second) || age > t.TCPEstablished
		}
		return age > t.TCPSynSent
	case 1, 58:
		return age > t.ICMPTimeout
	case 17:
		return age > t.UDPTimeout
	}
	return age > t.GenericTimeout
}

func verifMin(a, b time.Duration) time.Duration {
	if a < b {
		return a
	}
	return b
}

// VerifHarness_C14_expiry: EntryExpired equals the documented rule for every value image,
// and never fires on an entry younger than the smallest timeout that can apply.
func VerifHarness_C14_expiry() {
	v := verifValue("v")
	t := verifTimeouts()
	now := verifI64("now")
	proto := verifU8("proto")
	_, got := EntryExpired(t, now, proto, v)
	verifAssert("expired-equals-spec", got == verifSpecExpired(t, now, proto, v))
	age := time.Duration(now - v.LastSeen())
	floor := verifMin(verifMin(verifMin(t.TCPSynSent, t.TCPEstablished), verifMin(t.TCPFinsSeen, t.TCPResetSeen)),
		verifMin(verifMin(t.UDPTimeout, t.GenericTimeout), verifMin(t.ICMPTimeout, 120*time.Second)))
	if got {
		verifAssert("never-younger-than-smallest-timeout", age > floor)
	}
	_, fin := EntryFinished(t, now, proto, v)
	if got {
		verifAssert("expired-implies-finished", fin)
	}
}

type verifShim struct {
	ktime int64
	since time.Duration
}

func (s *verifShim) Now() time.Time                                { return time.Time{} }
func (s *verifShim) Since(t time.Time) time.Duration               { return s.since }
func (s *verifShim) Until(t time.Time) time.Duration               { return 0 }
func (s *verifShim) After(t time.Duration) <-chan time.Time        { return nil }
func (s *verifShim) NewTimer(d time.Duration) timeshim.Timer       { return nil }
func (s *verifShim) KTimeNanos() int64                             { return s.ktime }

// VerifHarness_C14_check: whatever LivenessScanner.Check selects for deletion was judged expired
// at the scanner's kernel time, and the timestamp handed to the kernel-side compare-and-delete
// is the one that was judged (the entry's own for normal/reverse entries, the reverse entry's for
// forward entries; a forward entry with no reverse entry is deleted with its own timestamp).
func VerifHarness_C14_check() {
	t := verifTimeouts()
	shim := &verifShim{ktime: verifI64("ktime"), since: time.Duration(verifI64("since"))}
	verifAssume(shim.ktime != 0)
	l := NewLivenessScanner(t, verifBool("dsr"), WithTimeShim(shim))
	var k v4.Key
	copy(k[:], verifBytes("k", v4.KeySize))
	v := verifValue("v")
	rev := verifValue("rev")
	revState := verifChoose("revstate", 3) // 0 present, 1 ENOENT, 2 other error
	get := func(key KeyInterface) (ValueInterface, error) {
		switch revState {
		case 1:
			return nil, unix.ENOENT
		case 2:
			return nil, unix.EINVAL
		}
		return rev, nil
	}
	verdict, ts := l.Check(k, v, get)
	now := shim.ktime
	switch v.Type() {
	case TypeNormal, TypeNATReverse:
		_, exp := EntryExpired(t, now, k.Proto(), v)
		verifAssert("delete-iff-expired", (verdict == ScanVerdictDelete) == exp)
		verifAssert("timestamp-is-judged-one", ts == v.LastSeen())
	case TypeNATForward:
		switch revState {
		case 1:
			verifAssert("orphan-forward-deleted", verdict == ScanVerdictDelete && ts == v.LastSeen())
		case 2:
			verifAssert("lookup-error-keeps", verdict == ScanVerdictOK)
		default:
			_, exp := EntryExpired(t, now, k.Proto(), rev)
			verifAssert("forward-follows-reverse", (verdict == ScanVerdictDelete) == exp)
			if exp {
				verifAssert("forward-timestamp-is-reverse", ts == rev.LastSeen())
			}
		}
	default:
		verifAssert("unknown-type-kept", verdict == ScanVerdictOK)
	}
}
