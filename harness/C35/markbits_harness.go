package markbits

import "math/bits"

// C35: mark-bit allocation is collision-free and reversible.
// Sym: mask (all 2^32 masks).  Shape: k allocation calls (forked 0..K).

// verifReachableState puts m into a state reachable by allocations, through the real allocation
// calls only (no field is written): i single-bit allocations (i forked, 0..2), optionally followed by
// one block allocation.  The number<->mark mapping must depend on the mask only.
func verifReachableState(m *MarkBitsManager, pop int) {
	i := verifChoose("allocated", 3)
	for k := 0; k < i; k++ {
		_, _ = m.NextSingleBitMark()
	}
	if verifChoose("block-allocated", 2) == 1 {
		_, _ = m.NextBlockBitsMark(2)
	}
}

// VerifHarness_C35_alloc: k successive NextSingleBitMark calls on an arbitrary mask.
func VerifHarness_C35_alloc() {
	mask := verifU32("mask")
	kmax := verifParam("K", 33)
	m := NewMarkBitsManager(mask, "h")
	pop := bits.OnesCount32(mask)
	verifAssert("avail0", m.AvailableMarkBitCount() == pop)
	var seen uint32
	for i := 0; i < kmax; i++ {
		bit, err := m.NextSingleBitMark()
		if err == nil {
			verifAssert("success-only-if-bits-left", i < pop)
			verifAssert("single-bit", bits.OnesCount32(bit) == 1)
			verifAssert("inside-mask", bit&mask == bit)
			verifAssert("distinct", bit&seen == 0)
			seen |= bit
			verifAssert("avail", m.AvailableMarkBitCount() == pop-i-1)
		} else {
			verifAssert("error-only-when-exhausted", i >= pop)
			verifAssert("error-returns-zero", bit == 0)
			verifAssert("exhausted-all-used", seen == mask)
		}
	}
}

// VerifHarness_C35_step: one allocation from an ARBITRARY reachable manager state
// (i bits already handed out, i symbolic): the call returns exactly the i-th set bit of
// the mask (rank = number of mask bits below it == i), or an error iff i == popcount.
// Bits of different rank are different bits, so this one inductive step gives
// collision-freedom for allocation histories of any length.
func VerifHarness_C35_step() {
	mask := verifU32("mask")
	i := verifChoose("i", verifParam("IMAX", 33)) // forked: one solver query set per i in 0..32
	m := NewMarkBitsManager(mask, "h")
	pop := bits.OnesCount32(mask)
	verifAssume(i <= pop)
	// representation invariant of a manager after i successful allocations
	m.numBitsAllocated = i
	m.numFreeBits = pop - i
	bit, err := m.NextSingleBitMark()
	if err != nil {
		verifAssert("step-error-iff-exhausted", i == pop)
		verifAssert("step-error-zero", bit == 0)
		verifAssert("step-error-state-unchanged", m.numBitsAllocated == i && m.numFreeBits == pop-i)
		return
	}
	verifAssert("step-ok-iff-left", i < pop)
	verifAssert("step-single-bit", bits.OnesCount32(bit) == 1)
	verifAssert("step-inside-mask", bit&mask == bit)
	verifAssert("step-rank", bits.OnesCount32(mask&(bit-1)) == i)
	verifAssert("step-state", m.numBitsAllocated == i+1 && m.numFreeBits == pop-i-1)
}

// VerifHarness_C35_block: NextBlockBitsMark(size) returns min(size, free) distinct bits of the mask.
func VerifHarness_C35_block() {
	mask := verifU32("mask")
	size := verifChoose("size", verifParam("S", 6))
	m := NewMarkBitsManager(mask, "h")
	pop := bits.OnesCount32(mask)
	first, _ := m.NextBlockBitsMark(1)
	mark, n := m.NextBlockBitsMark(size)
	left := pop - bits.OnesCount32(first)
	want := size
	if left < want {
		want = left
	}
	verifAssert("block-count", n == want)
	verifAssert("block-popcount", bits.OnesCount32(mark) == n)
	verifAssert("block-inside", mark&mask == mark)
	verifAssert("block-disjoint", mark&first == 0)
}

// VerifHarness_C35_roundtrip: MapNumberToMark / MapMarkToNumber are inverse on [0, 2^popcount).
func VerifHarness_C35_roundtrip() {
	mask := verifU32("mask")
	if lim := verifParam("MASKBITS", 32); lim < 32 {
		verifAssume(mask < uint32(1)<<uint(lim))
	}
	n := verifU32("n")
	m := NewMarkBitsManager(mask, "h")
	pop := bits.OnesCount32(mask)
	verifReachableState(m, pop)
	mark, err := m.MapNumberToMark(int(n))
	inRange := uint64(n) < uint64(1)<<uint(pop)
	if err != nil {
		verifAssert("error-only-out-of-range", !inRange)
		return
	}
	verifAssert("ok-only-in-range", inRange)
	verifAssert("mark-inside-mask", mark&mask == mark)
	back, err2 := m.MapMarkToNumber(mark)
	verifAssert("reverse-ok", err2 == nil)
	verifAssert("roundtrip", back == int(n))
}

// VerifHarness_C35_reverse: MapMarkToNumber rejects marks outside the mask and is injective inside it.
func VerifHarness_C35_reverse() {
	mask := verifU32("mask")
	if lim := verifParam("MASKBITS", 32); lim < 32 {
		verifAssume(mask < uint32(1)<<uint(lim))
	}
	a := verifU32("a")
	b := verifU32("b")
	m := NewMarkBitsManager(mask, "h")
	verifReachableState(m, bits.OnesCount32(mask))
	na, ea := m.MapMarkToNumber(a)
	nb, eb := m.MapMarkToNumber(b)
	verifAssert("reject-outside", (ea != nil) == (a&mask != a))
	if ea == nil && eb == nil && a != b {
		verifAssert("injective", na != nb)
	}
	if ea == nil {
		verifAssert("number-in-range", uint64(na) < uint64(1)<<uint(bits.OnesCount32(mask)))
		fwd, ef := m.MapNumberToMark(na)
		verifAssert("forward-ok", ef == nil)
		verifAssert("forward-roundtrip", fwd == a)
	}
}
