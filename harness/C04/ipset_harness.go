package labelindex

import (
	"sort"
	"strings"

	"github.com/projectcalico/api/pkg/lib/numorstring"

	"github.com/projectcalico/calico/felix/ip"
	"github.com/projectcalico/calico/felix/labelindex/ipsetmember"
	"github.com/projectcalico/calico/lib/std/uniquelabels"
	"github.com/projectcalico/calico/libcalico-go/lib/backend/model"
	"github.com/projectcalico/calico/libcalico-go/lib/selector"
)

// C04: IP set contents equal the addresses selected by the rule.
// Sym: every label value of endpoints/network sets and of the parent (presence forked, values free
// bytes from {x,y,z}).  Shape: K operations chosen from update/delete endpoint-or-set (labels,
// address list from a table with shared, nested and /0 CIDRs, named-port list, parent), update/
// delete parent labels, update/delete IP set (selector from a table, plain or named-port) over
// 3 endpoint ids, 1 parent, 2 IP set ids; with and without overlap suppression.  After every
// operation the members the index has emitted (adds minus removes) are compared with a from-
// scratch evaluation.

var vcSelectors = []string{"a == 'x'", "has(b)", "all()", "a != 'x'", "a in {'x', 'y'} && !has(b)"}

var vcNets = [][]string{
	{},
	{"10.0.0.1/32"},
	{"10.0.0.1/32", "10.0.0.2/32"},
	{"10.0.0.0/24"},
	{"10.0.0.0/24", "10.0.0.1/32"},
	{"0.0.0.0/0"},
	{"10.0.0.0/24", "10.0.0.0/24"},
	{"10.0.0.0/16"},                // same base address as the /24
	{"10.0.0.0/32", "10.0.0.0/24"}, // the /24's own base address as a host
}

func vcPorts(i int) []model.EndpointPort {
	tcp, udp := numorstring.ProtocolFromString("TCP"), numorstring.ProtocolFromString("UDP")
	switch i {
	case 1:
		return []model.EndpointPort{{Name: "http", Protocol: tcp, Port: 80}}
	case 2:
		return []model.EndpointPort{{Name: "http", Protocol: tcp, Port: 80}, {Name: "http", Protocol: udp, Port: 80}}
	case 3:
		return []model.EndpointPort{{Name: "http", Protocol: tcp, Port: 8080}, {Name: "dns", Protocol: udp, Port: 53}}
	}
	return nil
}

func vcVal(name string) string {
	s := verifString(name, 1)
	verifAssume(s[0] == 'x' || s[0] == 'y' || s[0] == 'z')
	return s
}

func vcLabels(tag string) map[string]string {
	m := map[string]string{}
	if verifBool(tag + ".has-a") {
		m["a"] = vcVal(tag + ".a")
	}
	if verifBool(tag + ".has-b") {
		m["b"] = vcVal(tag + ".b")
	}
	return m
}

type vcEP struct {
	live    bool
	labels  map[string]string
	nets    []string
	ports   []model.EndpointPort
	parents []string
}

type vcSet struct {
	live  bool
	sel   string
	proto ipsetmember.Protocol
	port  string
}

func vcCovers(outer, inner string) bool { // outer strictly contains inner
	if outer == inner {
		return false
	}
	oc, ic := ip.MustParseCIDROrIP(outer).(ip.V4CIDR), ip.MustParseCIDROrIP(inner).(ip.V4CIDR)
	return oc.Prefix() < ic.Prefix() && oc.ContainsV4(ic.Addr().(ip.V4Addr))
}

// vcOp: one operation, fully decoded from shape digits (label VALUES stay symbolic).
type vcOp struct {
	kind              int // 0 update ep, 1 delete ep, 2 update parent labels, 3 delete parent labels, 4 update set, 5 delete set
	ep, set           int
	hasA, hasB        bool
	nets, ports       int
	parent            bool
	seltext, namedprt int
	fixedA            string // non-empty: label a has this concrete value instead of a free one
}

func VerifHarness_C04_ipsets() {
	from := verifParam("FROM", 0)
	count := verifParam("COUNT", 64)
	stride := verifParam("STRIDE", 1)
	nops := verifParam("K", 5)
	shape := from + verifChoose("shape", count)*stride
	digit := func(radix int) int {
		d := shape % radix
		shape /= radix
		return d
	}
	suppress := digit(2) == 1
	// the first operations create state (sets and endpoints, in either order), the rest are free
	ops := make([]vcOp, nops)
	setsFirst := digit(2) == 1
	for k := range ops {
		o := &ops[k]
		switch {
		case k < 2 && setsFirst, k >= 2 && k < 4 && !setsFirst:
			o.kind = 4
		case k < 4:
			o.kind = 0
		default:
			o.kind = digit(6)
		}
		o.ep, o.set = digit(3), digit(2)
		if k < 4 {
			o.ep, o.set = k%2, k%2 // creation phase: two distinct endpoints, two distinct sets
		}
		o.hasA, o.hasB = digit(2) == 1, digit(2) == 1
		o.nets, o.ports, o.parent = digit(len(vcNets)), digit(4), digit(2) == 1
		o.seltext, o.namedprt = digit(len(vcSelectors)), digit(3)
	}
	vcRun(ops, suppress)
}

// vcRun drives the index through the decoded operations and compares after every one.
func vcRun(ops []vcOp, suppress bool) {
	mkLabels := func(tag string, o *vcOp) map[string]string {
		m := map[string]string{}
		if o.hasA && o.fixedA != "" {
			m["a"] = o.fixedA
		} else if o.hasA {
			m["a"] = vcVal(tag + ".a")
		}
		if o.hasB {
			m["b"] = vcVal(tag + ".b")
		}
		return m
	}

	idx := NewSelectorAndNamedPortIndex(suppress)
	emitted := map[string]map[string]bool{}
	idx.OnMemberAdded = func(setID string, m ipsetmember.IPSetMember) {
		if emitted[setID] == nil {
			emitted[setID] = map[string]bool{}
		}
		verifAssert("callback/added-only-when-absent", !emitted[setID][m.ToProtobufFormat()])
		emitted[setID][m.ToProtobufFormat()] = true
	}
	idx.OnMemberRemoved = func(setID string, m ipsetmember.IPSetMember) {
		verifAssert("callback/removed-only-when-present", emitted[setID][m.ToProtobufFormat()])
		delete(emitted[setID], m.ToProtobufFormat())
	}
	var eps [3]vcEP
	var parentLabels map[string]string
	sets := map[string]*vcSet{"s0": {}, "s1": {}}
	setIDs := []string{"s0", "s1"}

	for step := range ops {
		o := &ops[step]
		switch o.kind {
		case 0:
			labels := mkLabels("ep", o)
			netStrs := vcNets[o.nets]
			ports := vcPorts(o.ports)
			var parents []string
			if o.parent {
				parents = []string{"p0"}
			}
			var nets []ip.CIDR
			for _, n := range netStrs {
				nets = append(nets, ip.MustParseCIDROrIP(n))
			}
			eps[o.ep] = vcEP{true, labels, netStrs, ports, parents}
			idx.UpdateEndpointOrSet(o.ep, uniquelabels.Make(labels), nets, ports, parents)
		case 1:
			eps[o.ep] = vcEP{}
			idx.DeleteEndpoint(o.ep)
		case 2:
			parentLabels = mkLabels("parent", o)
			idx.UpdateParentLabels("p0", parentLabels)
		case 3:
			parentLabels = nil
			idx.DeleteParentLabels("p0")
		case 4:
			id := setIDs[o.set]
			text := vcSelectors[o.seltext]
			sel, err := selector.Parse(text)
			verifAssert("selector-table-parses", err == nil)
			s := &vcSet{live: true, sel: text}
			switch o.namedprt {
			case 1:
				s.proto, s.port = ipsetmember.ProtocolTCP, "http"
			case 2:
				s.proto, s.port = ipsetmember.ProtocolUDP, "http"
			}
			if old := sets[id]; old.live && (old.proto != s.proto || old.port != s.port) {
				// an IP set's named port never changes under one id (the id is a hash of both)
				idx.DeleteIPSet(id)
				emitted[id] = nil
			}
			sets[id] = s
			idx.UpdateIPSet(id, sel, s.proto, s.port)
		case 5:
			id := setIDs[o.set]
			sets[id] = &vcSet{}
			idx.DeleteIPSet(id)
			emitted[id] = nil // deleting the set drops its members without callbacks
		}

		// from-scratch evaluation
		for _, id := range setIDs {
			s := sets[id]
			want := map[string]bool{}
			if s.live {
				sel, _ := selector.Parse(s.sel)
				for e := range eps {
					ep := &eps[e]
					if !ep.live {
						continue
					}
					eff := map[string]string{}
					if len(ep.parents) > 0 {
						for k, v := range parentLabels {
							eff[k] = v
						}
					}
					for k, v := range ep.labels {
						eff[k] = v
					}
					if !sel.Evaluate(eff) {
						continue
					}
					if s.proto == ipsetmember.ProtocolNone {
						for _, n := range ep.nets {
							want[ipsetmember.MakeCIDROrIPOnly(ip.MustParseCIDROrIP(n)).ToProtobufFormat()] = true
						}
					} else {
						for _, p := range ep.ports {
							if p.Name == s.port && s.proto.MatchesModelProtocol(p.Protocol) {
								for _, n := range ep.nets {
									want[ipsetmember.MakeIPPortProto(ip.MustParseCIDROrIP(n).Addr(), p.Port, s.proto).ToProtobufFormat()] = true
								}
							}
						}
					}
				}
				if suppress && s.proto == ipsetmember.ProtocolNone {
					// emitted members cover the same addresses and none lies inside another
					var all []string
					for m := range want {
						all = append(all, m)
					}
					sort.Strings(all)
					for _, m := range all {
						for _, o := range all {
							if vcCovers(vcCIDRText(o), vcCIDRText(m)) {
								delete(want, m)
							}
						}
					}
				}
			}
			got := emitted[id]
			n := 0
			for m, on := range got {
				if on {
					n++
					verifAssert("emitted-member-is-selected", want[m])
				}
			}
			verifAssert("every-selected-member-emitted-once", n == len(want))
		}
	}
}

// vcCIDRText: the CIDR text of a CIDR-only member's String() form.
func vcCIDRText(m string) string {
	if !strings.Contains(m, "/") {
		return m + "/32"
	}
	return m
}


// VerifHarness_C04_inherit: the label-inheritance dimension exhaustively.  Two endpoints sharing an
// address, each with or without its own label a and with or without the parent; the parent with or
// without label a (value free); one IP set (selector on a, plain or named port) created before,
// between or after them; then one follow-up (delete an endpoint, delete the parent's labels, detach
// an endpoint from the parent, or nothing).
func VerifHarness_C04_inherit() {
	shape := verifChoose("shape", verifParam("COUNT", 1152)) * verifParam("STRIDE", 1)
	digit := func(radix int) int {
		d := shape % radix
		shape /= radix
		return d
	}
	ep := func(id int, nets int) vcOp {
		o := vcOp{kind: 0, ep: id, hasA: digit(2) == 1, parent: digit(2) == 1, nets: nets, ports: 1}
		o.fixedA = "x"
		return o
	}
	e0, e1 := ep(0, 2), ep(1, 1)
	par := vcOp{kind: 2, hasA: digit(2) == 1}
	set := vcOp{kind: 4, set: 0, seltext: []int{0, 3, 2}[digit(3)], namedprt: digit(2)}
	var ops []vcOp
	switch digit(3) {
	case 0:
		ops = []vcOp{e0, e1, par, set}
	case 1:
		ops = []vcOp{set, e0, e1, par}
	default:
		ops = []vcOp{e0, par, set, e1}
	}
	switch digit(4) {
	case 1:
		ops = append(ops, vcOp{kind: 1, ep: 0})
	case 2:
		ops = append(ops, vcOp{kind: 3})
	case 3:
		d := e1
		d.parent = false
		ops = append(ops, d)
	}
	vcRun(ops, false)
}
