package ippool

import (
	"context"
	gonet "net"
	"time"

	v3 "github.com/projectcalico/api/pkg/apis/projectcalico/v3"
	"github.com/projectcalico/api/pkg/client/clientset_generated/clientset"
	pcv3 "github.com/projectcalico/api/pkg/client/clientset_generated/clientset/typed/projectcalico/v3"
	metav1 "k8s.io/apimachinery/pkg/apis/meta/v1"
	"k8s.io/client-go/tools/cache"

	"github.com/projectcalico/calico/libcalico-go/lib/ipam"
	cnet "github.com/projectcalico/calico/libcalico-go/lib/net"
)

// C39 (part 2): one reconcile pass of the real controller (reconcileConditions + reconcileFinalizer)
// over three pools from a table of nested / equal / disjoint CIDRs and one IPAM block with a FREE
// address, against in-memory stand-ins for the informers, the API client and the IPAM client.
// Sym: creation times (which pool is older), the block's address.  Shape: pool CIDRs, prior
// Allocatable condition, terminating / disabled flags, finalizer presence.

type verifStore struct {
	pools    map[string]*v3.IPPool // what the API server holds after the writes
	released []string
}

type verifIndexer struct {
	cache.Indexer
	items []any
}

func (i verifIndexer) List() []any { return i.items }

type verifInformer struct {
	cache.SharedIndexInformer
	idx verifIndexer
}

func (i verifInformer) GetIndexer() cache.Indexer { return i.idx }

type verifCli struct {
	clientset.Interface
	st *verifStore
}

func (c verifCli) ProjectcalicoV3() pcv3.ProjectcalicoV3Interface { return verifV3{st: c.st} }

type verifV3 struct {
	pcv3.ProjectcalicoV3Interface
	st *verifStore
}

func (c verifV3) IPPools() pcv3.IPPoolInterface { return verifPoolsAPI{st: c.st} }

type verifPoolsAPI struct {
	pcv3.IPPoolInterface
	st *verifStore
}

func (a verifPoolsAPI) Update(ctx context.Context, p *v3.IPPool, o metav1.UpdateOptions) (*v3.IPPool, error) {
	cp := p.DeepCopy()
	a.st.pools[p.Name] = cp
	return cp.DeepCopy(), nil
}

func (a verifPoolsAPI) UpdateStatus(ctx context.Context, p *v3.IPPool, o metav1.UpdateOptions) (*v3.IPPool, error) {
	cur := a.st.pools[p.Name].DeepCopy()
	cur.Status = p.Status.DeepCopy()
	a.st.pools[p.Name] = cur
	return cur.DeepCopy(), nil
}

type verifIPAM struct {
	ipam.Interface
	st *verifStore
}

func (i verifIPAM) ReleasePoolAffinities(ctx context.Context, pool cnet.IPNet) error {
	i.st.released = append(i.st.released, pool.String())
	return nil
}

var verifPoolCIDRs = []string{"10.0.0.0/16", "10.0.1.0/24", "10.0.0.0/16", "10.1.0.0/16", "10.0.1.128/25"}
var verifPoolBase = []uint32{0x0a000000, 0x0a000100, 0x0a000000, 0x0a010000, 0x0a000180}
var verifPoolMask = []uint32{0xffff0000, 0xffffff00, 0xffff0000, 0xffff0000, 0xffffff80}

func verifOverlap(i, j int) bool {
	m := verifPoolMask[i] & verifPoolMask[j]
	return verifPoolBase[i]&m == verifPoolBase[j]&m
}

func verifAllocatable(p *v3.IPPool) bool {
	return hasCondition(p, v3.IPPoolConditionAllocatable, metav1.ConditionTrue)
}

func VerifHarness_C39_reconcile() {
	st := &verifStore{pools: map[string]*v3.IPPool{}}
	names := []string{"pool-a", "pool-b", "pool-c"}
	var cidr [3]int
	var wasAlloc, deleting, hadFinalizer [3]bool
	var created [3]uint8
	var items []any
	for i := 0; i < 3; i++ {
		p := &v3.IPPool{}
		p.Name = names[i]
		// pool-a is the /16; pool-b and pool-c range over nested, equal and disjoint CIDRs
		cidr[i] = [][]int{{0}, {1, 2, 3}, {1, 4}}[i][verifChoose("cidr", []int{1, 3, 2}[i])]
		p.Spec.CIDR = verifPoolCIDRs[cidr[i]]
		created[i] = []uint8{100, 0, 150}[i]
		if i == 1 || verifParam("FULL", 0) == 1 {
			created[i] = verifU8(names[i] + ".created") // free: older than, equal to or newer than the others
		}
		p.CreationTimestamp = metav1.Time{Time: time.Unix(1_700_000_000+int64(created[i]), 0)}
		state := 1 + verifChoose("state-a", 2) // pool-a: allocatable or terminating
		if i > 0 || verifParam("FULL", 0) == 1 {
			state = verifChoose("state", 4)
		}
		switch state {
		case 1: // allocatable, carries the finalizer
			wasAlloc[i], hadFinalizer[i] = true, true
			p.Status = &v3.IPPoolStatus{Conditions: []metav1.Condition{{Type: v3.IPPoolConditionAllocatable, Status: metav1.ConditionTrue, Reason: v3.IPPoolReasonOK}}}
			p.Finalizers = []string{IPPoolFinalizer}
		case 2: // was allocatable, now being deleted
			wasAlloc[i], hadFinalizer[i], deleting[i] = true, true, true
			p.Status = &v3.IPPoolStatus{Conditions: []metav1.Condition{{Type: v3.IPPoolConditionAllocatable, Status: metav1.ConditionTrue, Reason: v3.IPPoolReasonOK}}}
			p.Finalizers = []string{IPPoolFinalizer}
			t := metav1.Time{Time: time.Unix(1_700_001_000, 0)}
			p.DeletionTimestamp = &t
		case 3: // previously masked for overlap
			p.Status = &v3.IPPoolStatus{Conditions: []metav1.Condition{{Type: v3.IPPoolConditionAllocatable, Status: metav1.ConditionFalse, Reason: v3.IPPoolReasonCIDROverlap}}}
		}
		st.pools[p.Name] = p.DeepCopy()
		items = append(items, p)
	}
	// a valid pre-state: pools that are allocatable (or were, and are terminating) do not overlap
	for i := 0; i < 3; i++ {
		for j := i + 1; j < 3; j++ {
			verifAssume(!(wasAlloc[i] && wasAlloc[j] && verifOverlap(cidr[i], cidr[j])))
		}
	}
	// one IPAM block with a free /26-aligned address
	ba := verifU32("block") &^ 63
	blk := &v3.IPAMBlock{}
	blk.Spec.CIDR = cnet.IPNet{IPNet: verifNet(ba, 26)}.String()
	hasBlock := true // "no block" is the same as a block outside every pool
	var blocks []any
	if hasBlock {
		blocks = append(blocks, blk)
	}
	c := &IPPoolController{
		ctx:           context.Background(),
		cli:           verifCli{st: st},
		poolInformer:  verifInformer{idx: verifIndexer{items: items}},
		blockInformer: verifInformer{idx: verifIndexer{items: blocks}},
		ipam:          verifIPAM{st: st},
	}
	verifAssert("reconcile/no-error", c.reconcile() == nil)

	for i := 0; i < 3; i++ {
		pi := st.pools[names[i]]
		for j := 0; j < 3; j++ {
			if i == j {
				continue
			}
			pj := st.pools[names[j]]
			if verifOverlap(cidr[i], cidr[j]) {
				verifAssert("no-two-allocatable-pools-overlap", !(verifAllocatable(pi) && verifAllocatable(pj)))
				if deleting[j] {
					verifAssert("terminating-pool-keeps-masking-overlapping-pools", !verifAllocatable(pi) || deleting[i])
				}
			}
		}
		if wasAlloc[i] && !deleting[i] {
			verifAssert("allocatable-pool-never-displaced", verifAllocatable(pi))
		}
		if deleting[i] {
			verifAssert("terminating-pool-not-allocatable", !verifAllocatable(pi))
			inPool := hasBlock && ba&verifPoolMask[cidr[i]] == verifPoolBase[cidr[i]]
			if inPool {
				verifAssert("pool-with-blocks-keeps-its-finalizer", hasFinalizer(pi))
			} else {
				verifAssert("pool-without-blocks-is-released", !hasFinalizer(pi))
			}
		}
		// exactly the allocatable (and not terminating) pools carry the finalizer
		if !deleting[i] {
			verifAssert("finalizer-iff-allocatable", hasFinalizer(pi) == verifAllocatable(pi))
		}
	}
	// some pool of every overlapping group is allocatable unless a terminating pool masks the group
	for i := 0; i < 3; i++ {
		if deleting[i] {
			continue
		}
		covered := verifAllocatable(st.pools[names[i]])
		for j := 0; j < 3; j++ {
			if j != i && verifOverlap(cidr[i], cidr[j]) && (verifAllocatable(st.pools[names[j]]) || deleting[j]) {
				covered = true
			}
		}
		verifAssert("address-space-not-left-without-a-pool", covered)
	}
}

func verifNet(a uint32, ones int) (n gonet.IPNet) {
	m := uint32(0xffffffff) << (32 - uint32(ones))
	n.IP = []byte{byte(a >> 24), byte(a >> 16), byte(a >> 8), byte(a)}
	n.Mask = []byte{byte(m >> 24), byte(m >> 16), byte(m >> 8), byte(m)}
	return
}
