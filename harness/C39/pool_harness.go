package ippool

import (
	"time"

	v3 "github.com/projectcalico/api/pkg/apis/projectcalico/v3"
	metav1 "k8s.io/apimachinery/pkg/apis/meta/v1"
)

// C39 (part 1): the order in which overlapping pools are considered is a consistent total
// preorder: already-allocatable pools first, terminating next, disabled, then new; older first;
// then by name.  Sym: condition state, deletion flag, creation time, name bytes of three pools.

func verifPool(name string) *v3.IPPool {
	p := &v3.IPPool{}
	p.Name = verifString(name+".name", 2)
	p.CreationTimestamp = metav1.Time{Time: time.Unix(1_700_000_000+int64(verifU8(name+".created")), 0)}
	switch verifChoose(name+".cond", 4) {
	case 1:
		p.Status = &v3.IPPoolStatus{Conditions: []metav1.Condition{{Type: v3.IPPoolConditionAllocatable, Status: metav1.ConditionTrue}}}
	case 2:
		p.Status = &v3.IPPoolStatus{Conditions: []metav1.Condition{{Type: v3.IPPoolConditionAllocatable, Status: metav1.ConditionFalse}}}
	case 3:
		p.Status = &v3.IPPoolStatus{}
	}
	if verifBool(name + ".deleting") {
		t := metav1.Time{Time: time.Unix(1_700_001_000, 0)}
		p.DeletionTimestamp = &t
	}
	return p
}

func verifSign(x int) int {
	if x < 0 {
		return -1
	}
	if x > 0 {
		return 1
	}
	return 0
}

func verifCategory(p *v3.IPPool) int {
	alloc, disabled := false, false
	var conds []metav1.Condition
	if p.Status != nil {
		conds = p.Status.Conditions
	}
	for _, c := range conds {
		if c.Type == v3.IPPoolConditionAllocatable {
			alloc = c.Status == metav1.ConditionTrue
			disabled = c.Status == metav1.ConditionFalse
		}
	}
	switch {
	case p.DeletionTimestamp != nil:
		return 1
	case alloc:
		return 0
	case disabled:
		return 2
	}
	return 3
}

func VerifHarness_C39_sort() {
	a, b, c := verifPool("a"), verifPool("b"), verifPool("c")
	ab, ba := verifSign(poolSortFunc(a, b)), verifSign(poolSortFunc(b, a))
	verifAssert("sort/antisymmetric", ab == -ba)
	verifAssert("sort/reflexive-zero", poolSortFunc(a, a) == 0)
	if ab <= 0 && verifSign(poolSortFunc(b, c)) <= 0 {
		verifAssert("sort/transitive", verifSign(poolSortFunc(a, c)) <= 0)
	}
	ca, cb := verifCategory(a), verifCategory(b)
	verifAssert("sort/category-equals-spec", poolSortCategory(a) == ca)
	if ca < cb {
		verifAssert("sort/allocatable-before-terminating-before-disabled-before-new", ab < 0)
	}
	if ca == cb && a.CreationTimestamp.Time.Unix() < b.CreationTimestamp.Time.Unix() {
		verifAssert("sort/older-first", ab < 0)
	}
	if ab == 0 {
		verifAssert("sort/ties-only-for-identical-keys", ca == cb && a.Name == b.Name && a.CreationTimestamp.Time.Unix() == b.CreationTimestamp.Time.Unix())
	}
}
