package rules

import (
	"strings"

	v3 "github.com/projectcalico/api/pkg/apis/projectcalico/v3"

	"github.com/projectcalico/calico/felix/config"
	"github.com/projectcalico/calico/felix/generictables"
	"github.com/projectcalico/calico/felix/ipsets"
	"github.com/projectcalico/calico/felix/iptables"
	"github.com/projectcalico/calico/felix/proto"
	"github.com/projectcalico/calico/felix/types"
)

// C40: host protection and workload isolation on the filter-table packet paths (iptables, IPv4).
// The real static chains, dispatch chains, host-endpoint and workload-endpoint chains are rendered
// for a host endpoint whose policy DENIES EVERYTHING and a workload whose egress policy allows or
// denies everything; a free packet (protocol, ports, addresses, mark, IP-set memberships, address
// type of the destination, conntrack state) is walked through INPUT / OUTPUT / FORWARD.

// v40Match handles the fragments the shared matcher does not know (address type, the conntrack
// states used by the static chains) and delegates the rest.
var v40SrcLocal bool

func v40Match(text string, p *vPkt, sets *vSets, dstLocal bool) bool {
	w := strings.Fields(text)
	var rest []string
	ok := true
	for i := 0; i < len(w); i++ {
		if w[i] == "-m" && i+1 < len(w) && w[i+1] == "addrtype" {
			j := i + 2
			neg := false
			if w[j] == "!" {
				neg = true
				j++
			}
			local := dstLocal
			switch {
			case w[j] == "--dst-type" && w[j+1] == "LOCAL":
			case w[j] == "--src-type" && w[j+1] == "LOCAL":
				local = v40SrcLocal
			default:
				verifFail("oracle/unknown-addrtype-fragment")
			}
			if local == neg {
				ok = false
			}
			i = j + 1
			if i+1 < len(w) && w[i+1] == "--limit-iface-in" {
				i++
			}
			continue
		}
		rest = append(rest, w[i])
	}
	return ok && vMatch(strings.Join(rest, " "), p, sets)
}

func v40Eval(rules []generictables.Rule, p *vPkt, sets *vSets, chains map[string][]generictables.Rule, dstLocal bool, depth int) int {
	if depth > 10 {
		verifFail("oracle/chain-depth")
	}
	for _, r := range rules {
		if r.Match != nil && !v40Match(r.Match.Render(), p, sets, dstLocal) {
			continue
		}
		w := strings.Fields(r.Action.ToFragment(vFeatures))
		if len(w) < 2 || (w[0] != "--jump" && w[0] != "--goto") {
			verifFail("oracle/unknown-action")
		}
		switch w[1] {
		case "ACCEPT":
			return vAccept
		case "DROP":
			return vDrop
		case "REJECT":
			return vReject
		case "RETURN":
			return vReturn
		case "MARK":
			vm := strings.Split(w[3], "/")
			val := vParseU32(vm[0])
			mask := uint32(0xffffffff)
			if len(vm) == 2 {
				mask = vParseU32(vm[1])
			}
			p.mark = (p.mark &^ mask) | val
		case "NFLOG", "LOG":
		default:
			sub, known := chains[w[1]]
			if !known {
				p.reached = w[1]
				return vHandOff
			}
			v := v40Eval(sub, p, sets, chains, dstLocal, depth+1)
			if v == vAccept || v == vDrop || v == vReject || v == vHandOff {
				return v
			}
			if w[0] == "--goto" {
				return vReturn
			}
		}
	}
	return vCont
}

func v40Policy(name string, action string, inbound bool) (*types.PolicyID, *proto.Policy) {
	id := &types.PolicyID{Name: name, Kind: v3.KindGlobalNetworkPolicy}
	pol := &proto.Policy{Tier: "default"}
	r := &proto.Rule{Action: action}
	if inbound {
		pol.InboundRules = []*proto.Rule{r}
	} else {
		pol.OutboundRules = []*proto.Rule{r}
	}
	return id, pol
}

func VerifHarness_C40_paths() {
	e2h := []string{"DROP", "RETURN", "ACCEPT"}[verifChoose("endpoint-to-host-action", 3)]
	cfg := Config{
		IPSetConfigV4: ipsets.NewIPVersionConfig(ipsets.IPFamilyV4, "cali", nil, nil),
		IPSetConfigV6: ipsets.NewIPVersionConfig(ipsets.IPFamilyV6, "cali", nil, nil),
		MarkAccept:    0x80, MarkPass: 0x100, MarkScratch0: 0x200, MarkScratch1: 0x400, MarkDrop: 0x800, MarkEndpoint: 0xff000,
		WorkloadIfacePrefixes: []string{"cali"},
		IPIPEnabled:           true,
		VXLANEnabled:          true,
		VXLANPort:             4789,
		FilterAllowAction:     "ACCEPT",
		MangleAllowAction:     "ACCEPT",
		FilterDenyAction:      "DROP",
		EndpointToHostAction:  e2h,
		FailsafeInboundHostPorts: []config.ProtoPort{{Protocol: "tcp", Port: 22}, {Protocol: "udp", Port: 68, Net: "10.0.0.0/8"},
			{Protocol: "udp", Port: 68, Net: "192.168.0.0/16"}, {Protocol: "udp", Port: 68, Net: "fd00::/8"}},
		FailsafeOutboundHostPorts: []config.ProtoPort{{Protocol: "tcp", Port: 2379}, {Protocol: "udp", Port: 53}},
	}
	rr := NewRenderer(cfg, false).(*DefaultRuleRenderer)
	cm := map[string][]generictables.Rule{}
	add := func(cs []*generictables.Chain) {
		for _, c := range cs {
			if c != nil {
				cm[c.Name] = c.Rules
			}
		}
	}
	add(rr.StaticFilterTableChains(4))
	// host endpoint eth0: one tier, one policy per direction that denies everything
	hIn, hInPol := v40Policy("hep-in", "deny", true)
	hOut, hOutPol := v40Policy("hep-out", "deny", false)
	add(rr.PolicyToIptablesChains(hIn, hInPol, 4))
	add(rr.PolicyToIptablesChains(hOut, hOutPol, 4))
	hepTiers := []TierPolicyGroups{{Name: "default", DefaultAction: string(v3.Deny),
		IngressPolicies: []*PolicyGroup{{Direction: PolicyDirectionInbound, Policies: []*types.PolicyID{hIn}, Selector: "all()"}},
		EgressPolicies:  []*PolicyGroup{{Direction: PolicyDirectionOutbound, Policies: []*types.PolicyID{hOut}, Selector: "all()"}}}}
	add(rr.HostEndpointToFilterChains("eth0", hepTiers, nil, nil, nil))
	add(rr.HostDispatchChains(map[string]types.HostEndpointID{"eth0": {EndpointId: "hep-1"}}, "", true))
	// workload cali1234: egress policy allows or denies everything
	wlEgress := []string{"allow", "deny"}[verifChoose("workload-egress-policy", 2)]
	wOut, wOutPol := v40Policy("wl-out", wlEgress, false)
	wIn, wInPol := v40Policy("wl-in", "allow", true)
	add(rr.PolicyToIptablesChains(wOut, wOutPol, 4))
	add(rr.PolicyToIptablesChains(wIn, wInPol, 4))
	wlTiers := []TierPolicyGroups{{Name: "default", DefaultAction: string(v3.Deny),
		IngressPolicies: []*PolicyGroup{{Direction: PolicyDirectionInbound, Policies: []*types.PolicyID{wIn}, Selector: "all()"}},
		EgressPolicies:  []*PolicyGroup{{Direction: PolicyDirectionOutbound, Policies: []*types.PolicyID{wOut}, Selector: "all()"}}}}
	add(rr.WorkloadEndpointToIptablesChains("cali1234", nil, true, wlTiers, nil, nil))
	add(rr.WorkloadDispatchChains(map[types.WorkloadEndpointID]*proto.WorkloadEndpoint{
		{OrchestratorId: "k8s", WorkloadId: "w", EndpointId: "eth0"}: {Name: "cali1234"}}))

	p := vNewPkt()
	verifAssume(p.mark&0xfff80 == 0) // Calico's mark bits are clear when a packet enters the filter table from outside
	sets := &vSets{m: map[string]bool{}}
	dstLocal := verifBool("dst-is-local-address")
	v40SrcLocal = verifBool("src-is-local-address")
	p.ctNew = verifBool("ct.new")
	tunnel := p.proto == 4 || (p.proto == 17 && p.dport == 4789 && dstLocal)
	path := verifChoose("path", 7)
	switch path {
	case 0: // INPUT from the host endpoint's interface
		p.inIface = "eth0"
		v := v40Eval(cm[ChainFilterInput], p, sets, cm, dstLocal, 0)
		failsafe := (p.proto == 6 && p.dport == 22) || (p.proto == 17 && p.dport == 68 && (p.src>>24 == 10 || p.src>>16 == 192<<8|168))
		if failsafe && !tunnel && p.ctNew {
			verifAssert("input/failsafe-port-accepted-despite-deny-all-policy", v == vAccept)
		}
		if !failsafe && !tunnel && p.ctNew {
			verifAssert("input/host-endpoint-policy-applies-to-everything-else", v == vDrop)
		}
		if p.proto == 4 {
			inHosts := sets.in(rr.IPSetConfigV4.NameForMainIPSet(IPSetIDAllHostNets), "src")
			if !(inHosts && dstLocal) {
				verifAssert("input/ipip-from-non-cluster-source-dropped", v == vDrop)
			}
		}
		if p.proto == 17 && p.dport == 4789 && dstLocal {
			inVX := sets.in(rr.IPSetConfigV4.NameForMainIPSet(IPSetIDAllVXLANSourceNets), "src")
			if !inVX {
				verifAssert("input/vxlan-from-non-cluster-source-dropped", v == vDrop)
			}
		}
	case 1: // INPUT from an interface with the workload prefix that Felix does not know
		p.inIface = "cali9999"
		if !tunnel {
			v := v40Eval(cm[ChainFilterInput], p, sets, cm, dstLocal, 0)
			verifAssert("input/unknown-workload-interface-dropped", v == vDrop)
		}
	case 2: // FORWARD from an unknown workload-prefixed interface
		p.inIface, p.outIface = "cali9999", "eth0"
		v := v40Eval(cm[ChainFilterForward], p, sets, cm, dstLocal, 0)
		verifAssert("forward/unknown-workload-interface-dropped", v == vDrop)
	case 3: // INPUT from the known workload: its egress policy first, then the endpoint-to-host action
		p.inIface = "cali1234"
		// encapsulated packets sent by a workload are dropped by its endpoint chain whatever the policy
		encap := p.proto == 4 || (p.proto == 17 && p.dport == 4789)
		if encap {
			// (a workload cannot use a cluster host's source address: the raw table's reverse-path
			// check, outside this harness, drops that; such packets are not judged here)
			v := v40Eval(cm[ChainFilterInput], p, sets, cm, dstLocal, 0)
			fromHost := sets.in(rr.IPSetConfigV4.NameForMainIPSet(IPSetIDAllHostNets), "src")
			fromVX := sets.in(rr.IPSetConfigV4.NameForMainIPSet(IPSetIDAllVXLANSourceNets), "src")
			if !fromHost && !fromVX && p.ctNew {
				verifAssert("workload-to-host/encapsulated-traffic-from-workloads-dropped", v == vDrop)
			}
		} else if p.ctNew {
			v := v40Eval(cm[ChainFilterInput], p, sets, cm, dstLocal, 0)
			if wlEgress == "deny" {
				verifAssert("workload-to-host/egress-policy-first", v == vDrop)
			} else {
				switch e2h {
				case "DROP":
					verifAssert("workload-to-host/then-configured-action", v == vDrop)
				case "ACCEPT":
					verifAssert("workload-to-host/then-configured-action", v == vAccept)
				default:
					verifAssert("workload-to-host/then-configured-action", v != vDrop && v != vAccept)
				}
			}
		}
	case 5, 6: // the host endpoint's untracked (raw table) and pre-DNAT (mangle table) ingress chains
		tm := map[string][]generictables.Rule{}
		for _, c := range rr.PolicyToIptablesChains(hIn, hInPol, 4) {
			tm[c.Name] = c.Rules
		}
		table := "raw"
		var cs []*generictables.Chain
		if path == 5 {
			cs = rr.HostEndpointToRawChains("eth0", hepTiers)
		} else {
			table = "mangle"
			cs = rr.HostEndpointToMangleIngressChains("eth0", hepTiers)
		}
		for _, c := range append(cs, rr.failsafeInChain(table, 4), rr.failsafeOutChain(table, 4)) {
			tm[c.Name] = c.Rules
		}
		p.inIface = "eth0"
		v := v40Eval(tm[EndpointChainName(HostFromEndpointPfx, "eth0", iptables.MaxChainNameLength)], p, sets, tm, dstLocal, 0)
		failsafe := (p.proto == 6 && p.dport == 22) || (p.proto == 17 && p.dport == 68 && (p.src>>24 == 10 || p.src>>16 == 192<<8|168))
		if failsafe {
			verifAssert("untracked-and-pre-dnat/failsafe-port-accepted-despite-deny-all-policy", v == vAccept)
		}
		if !failsafe && path == 6 && p.ctNew {
			verifAssert("pre-dnat/policy-applies-to-everything-else", v == vDrop)
		}
	default: // OUTPUT through the host endpoint's interface
		p.outIface = "eth0"
		v := v40Eval(cm[ChainFilterOutput], p, sets, cm, dstLocal, 0)
		failsafe := (p.proto == 6 && p.dport == 2379) || (p.proto == 17 && p.dport == 53)
		if failsafe && p.ctNew {
			verifAssert("output/failsafe-port-accepted-despite-deny-all-policy", v == vAccept)
		}
	}
}
