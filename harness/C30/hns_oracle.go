package windataplane

// (shared oracle: also included, with the package clause rewritten, in package policysets)

// C30: Windows rule flattening preserves policy verdicts for supported rules.
// Shape (fork): which rule of a curated table sits at each position of each tier; tier default
// actions; whether priorities are rewritten strictly or grouped.  Sym: the connection (protocol,
// addresses, ports).  The HNS side is evaluated from the generated ACLPolicy strings "as HNS
// would" (lowest priority number among matching rules wins), the reference side is Calico's
// tier/policy/rule semantics on the proto.Rules.

import (
	"strconv"
	"strings"

	"github.com/projectcalico/calico/felix/dataplane/windows/hns"
	"github.com/projectcalico/calico/felix/proto"
)

type vConn struct {
	proto        uint8
	src, dst     uint32
	sport, dport uint16
}

func vNewConn() vConn {
	return vConn{proto: verifU8("c.proto"), src: verifU32("c.src"), dst: verifU32("c.dst"), sport: verifU16("c.sport"), dport: verifU16("c.dport")}
}

type vIPSets map[string][]string

func (s vIPSets) GetIPSetMembers(id string) []string { return s[id] }

type vHNS struct{}

func (vHNS) GetHNSSupportedFeatures() hns.HNSSupportedFeatures {
	return hns.HNSSupportedFeatures{Acl: hns.HNSAclFeatures{AclAddressLists: true, AclNoHostRulePriority: true, AclPortRanges: true, AclRuleId: true}}
}


var vSets = vIPSets{
	"s1":  {"10.1.1.0/24", "10.2.0.0/16"},
	"s2":  {"192.168.1.7/32"},
	"ps1": {"192.168.1.1,tcp:80", "192.168.1.2,tcp:80", "192.168.1.3,udp:53"},
}

func vTCP() *proto.Protocol { return &proto.Protocol{NumberOrName: &proto.Protocol_Name{Name: "tcp"}} }
func vUDP() *proto.Protocol { return &proto.Protocol{NumberOrName: &proto.Protocol_Name{Name: "udp"}} }
func vPR(a, b int32) *proto.PortRange { return &proto.PortRange{First: a, Last: b} }

// vRuleTable: supported match criteria only (no negation, ICMP, named ports, log action).
func vRuleTable(i int) *proto.Rule {
	switch i {
	case 0:
		return &proto.Rule{Action: "allow", Protocol: vTCP(), DstPorts: []*proto.PortRange{vPR(80, 80)}}
	case 1:
		return &proto.Rule{Action: "deny", SrcNet: []string{"10.0.0.0/8"}}
	case 2:
		return &proto.Rule{Action: "pass", Protocol: vTCP()}
	case 3:
		return &proto.Rule{Action: "allow", Protocol: vTCP(), SrcNet: []string{"10.1.0.0/16"}, DstPorts: []*proto.PortRange{vPR(80, 90), vPR(443, 443)}}
	case 4:
		return &proto.Rule{Action: "deny", Protocol: vUDP(), DstNet: []string{"192.168.0.0/16"}}
	case 5:
		return &proto.Rule{Action: "next-tier", SrcIpSetIds: []string{"s1"}}
	case 6:
		return &proto.Rule{Action: "allow", SrcNet: []string{"10.1.0.0/16", "10.2.3.0/24"}, SrcIpSetIds: []string{"s1"}}
	case 7:
		return &proto.Rule{Action: "deny"}
	case 8:
		return &proto.Rule{Action: "allow", Protocol: vUDP(), SrcPorts: []*proto.PortRange{vPR(1000, 2000)}, DstNet: []string{"192.168.1.0/24"}}
	case 9:
		return &proto.Rule{Action: "pass", Protocol: &proto.Protocol{NumberOrName: &proto.Protocol_Number{Number: 6}}, SrcNet: []string{"10.1.1.0/24"}, DstPorts: []*proto.PortRange{vPR(443, 443)}}
	case 10:
		return &proto.Rule{Action: "allow", DstIpPortSetIds: []string{"ps1"}}
	case 11:
		return &proto.Rule{Action: "deny", DstIpSetIds: []string{"s2"}, DstNet: []string{"192.168.1.0/24"}}
	case 12:
		return &proto.Rule{Action: "allow"}
	}
	return &proto.Rule{Action: "pass", Protocol: vUDP(), DstPorts: []*proto.PortRange{vPR(53, 53), vPR(5000, 6000)}}
}

const vTableSize = 14

// vPick: a table rule valid for the direction.  Destination service (ip-port set) matches exist
// only in egress rules (the API validator rejects them elsewhere), so they are not drawn inbound.
func vPick(table int, inbound bool) *proto.Rule {
	r := vRuleTable(verifChoose("rule", table))
	verifAssume(!(inbound && len(r.DstIpPortSetIds) > 0))
	return r
}

// ---- reference: Calico semantics on proto.Rule ----

func vCIDR(s string) (uint32, uint32) {
	plen := 32
	ip := s
	if i := strings.IndexByte(s, '/'); i >= 0 {
		ip = s[:i]
		plen, _ = strconv.Atoi(s[i+1:])
	}
	var a uint32
	for _, p := range strings.Split(ip, ".") {
		n, err := strconv.Atoi(p)
		if err != nil {
			verifFail("oracle/bad-address")
		}
		a = a<<8 | uint32(n)
	}
	var m uint32
	if plen > 0 {
		m = uint32(0xffffffff) << uint(32-plen)
	}
	return a & m, m
}

func vInAny(a uint32, cidrs []string) bool {
	hit := false
	for _, c := range cidrs {
		base, m := vCIDR(c)
		hit = hit || a&m == base
	}
	return hit
}

func vInRanges(p uint16, rs []*proto.PortRange) bool {
	hit := false
	for _, r := range rs {
		hit = hit || (int32(p) >= r.First && int32(p) <= r.Last)
	}
	return hit
}

func vProtoOf(p *proto.Protocol) (uint8, bool) {
	if p == nil {
		return 0, false
	}
	switch x := p.NumberOrName.(type) {
	case *proto.Protocol_Name:
		switch strings.ToLower(x.Name) {
		case "tcp":
			return 6, true
		case "udp":
			return 17, true
		case "icmp":
			return 1, true
		case "sctp":
			return 132, true
		}
		verifFail("oracle/unknown-protocol-name")
	case *proto.Protocol_Number:
		return uint8(x.Number), true
	}
	return 0, false
}

func vRefMatch(r *proto.Rule, c vConn) bool {
	ok := true
	if pn, has := vProtoOf(r.Protocol); has {
		ok = ok && c.proto == pn
	}
	if len(r.SrcNet) > 0 {
		ok = ok && vInAny(c.src, r.SrcNet)
	}
	if len(r.DstNet) > 0 {
		ok = ok && vInAny(c.dst, r.DstNet)
	}
	for _, id := range r.SrcIpSetIds {
		ok = ok && vInAny(c.src, vSets[id])
	}
	for _, id := range r.DstIpSetIds {
		ok = ok && vInAny(c.dst, vSets[id])
	}
	if len(r.SrcPorts) > 0 {
		ok = ok && vInRanges(c.sport, r.SrcPorts)
	}
	if len(r.DstPorts) > 0 {
		ok = ok && vInRanges(c.dport, r.DstPorts)
	}
	for _, id := range r.DstIpPortSetIds {
		hit := false
		for _, m := range vSets[id] {
			// <ip>,(tcp|udp):<port>
			parts := strings.Split(m, ",")
			pp := strings.Split(parts[1], ":")
			pn := uint8(6)
			if pp[0] == "udp" {
				pn = 17
			}
			port, _ := strconv.Atoi(pp[1])
			base, mask := vCIDR(parts[0])
			hit = hit || (c.dst&mask == base && c.proto == pn && c.dport == uint16(port))
		}
		ok = ok && hit
	}
	return ok
}

const (
	vNone  = 0
	vAllow = 1
	vDeny  = 2
	vPass  = 3
)

func vAct(a string) int {
	switch strings.ToLower(a) {
	case "", "allow":
		return vAllow
	case "deny":
		return vDeny
	}
	return vPass
}

// vRefVerdict: tiers in order; within a tier the first matching rule decides (allow / deny / pass
// to the next tier); no match = the tier's default action; passing out of the last tier = deny.
func vRefVerdict(tiers [][]*proto.Rule, tierDrop []bool, c vConn) int {
	verdict := vNone
	for t, rules := range tiers {
		tv := vNone
		for _, r := range rules {
			m := vRefMatch(r, c)
			if tv == vNone && m {
				tv = vAct(r.Action)
			}
		}
		if tv == vNone {
			if tierDrop[t] {
				tv = vDeny
			} else {
				tv = vPass
			}
		}
		if verdict == vNone && tv != vPass {
			verdict = tv
		}
	}
	if verdict == vNone {
		verdict = vDeny
	}
	return verdict
}

// ---- HNS side: evaluate generated ACL rules from their strings ----

func vHnsPorts(p uint16, list string) bool {
	if list == "" {
		return true
	}
	hit := false
	for _, item := range strings.Split(list, ",") {
		lo, hi := item, item
		if i := strings.IndexByte(item, '-'); i >= 0 {
			lo, hi = item[:i], item[i+1:]
		}
		l, err1 := strconv.Atoi(lo)
		h, err2 := strconv.Atoi(hi)
		if err1 != nil || err2 != nil {
			verifFail("hns/bad-port-list")
		}
		hit = hit || (int(p) >= l && int(p) <= h)
	}
	return hit
}

func vHnsAddrs(a uint32, list string) bool {
	if list == "" {
		return true
	}
	return vInAny(a, strings.Split(list, ","))
}

func vHnsMatch(r *hns.ACLPolicy, c vConn, inbound bool) bool {
	local, remote, lport, rport := c.src, c.dst, c.sport, c.dport
	if inbound {
		local, remote, lport, rport = c.dst, c.src, c.dport, c.sport
	}
	ok := r.Protocol == 256 || uint16(c.proto) == r.Protocol
	ok = ok && vHnsAddrs(local, r.LocalAddresses)
	ok = ok && vHnsAddrs(remote, r.RemoteAddresses)
	ok = ok && vHnsPorts(lport, r.LocalPorts)
	ok = ok && vHnsPorts(rport, r.RemotePorts)
	return ok
}

// vHnsVerdict: the matching rule with the numerically lowest priority decides.  Rules sharing a
// priority must share an action (HNS's tie-break between them is not Calico's).
func vHnsVerdict(rules []*hns.ACLPolicy, c vConn, inbound bool) int {
	best := 1 << 20
	verdict := vNone
	for _, r := range rules {
		m := vHnsMatch(r, c, inbound)
		if m && int(r.Priority) < best {
			best = int(r.Priority)
			if r.Action == hns.Allow {
				verdict = vAllow
			} else {
				verdict = vDeny
			}
		}
	}
	return verdict
}

