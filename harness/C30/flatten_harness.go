package windataplane

import (
	"strconv"

	"github.com/projectcalico/calico/felix/dataplane/windows/hns"
	"github.com/projectcalico/calico/felix/dataplane/windows/policysets"
	"github.com/projectcalico/calico/felix/proto"
)

type vNoStatic struct{}

func (vNoStatic) ReadData() ([]byte, error) { return nil, policysets.ErrNoRuleSpecified }

func VerifHarness_C30_flatten() {
	ntiers := verifParam("TIERS", 2)
	nrules := verifParam("RULES", 2)
	table := verifParam("TABLE", vTableSize)
	inbound := verifChoose("inbound", 2) == 1
	ps := policysets.NewPolicySets(vHNS{}, []policysets.IPSetCache{vSets}, vNoStatic{})
	var tiers [][]*proto.Rule
	var drops []bool
	var hnsTiers [][]*hns.ACLPolicy
	for t := 0; t < ntiers; t++ {
		var rules []*proto.Rule
		for i := 0; i < nrules; i++ {
			rules = append(rules, vPick(table, inbound))
		}
		drop := verifChoose("tier-default-drop", 2) == 1
		if t == ntiers-1 {
			drop = true // the last group (profiles, or the last tier) always ends in drop
		}
		// one policy per tier, holding the rules in the direction under test
		id := policysets.PolicyNamePrefix + "t" + strconv.Itoa(t)
		pol := &proto.Policy{}
		if inbound {
			pol.InboundRules = rules
		} else {
			pol.OutboundRules = rules
		}
		ps.AddOrReplacePolicySet(id, pol)
		tiers = append(tiers, rules)
		drops = append(drops, drop)
		hnsTiers = append(hnsTiers, ps.GetPolicySetRules([]string{id}, inbound, drop))
	}
	flat := flattenTiers(hnsTiers)
	limit := policysets.PolicyRuleMaxPriority
	if verifChoose("grouped-priorities", 2) == 1 {
		limit = policysets.PolicyRuleBasePriority + 1 // fewer priorities than rules: same-action runs share one
	}
	rewritePriorities(flat, limit)

	for i := 1; i < len(flat); i++ {
		verifAssert("hns/priorities-non-decreasing", flat[i-1].Priority <= flat[i].Priority)
		if flat[i-1].Priority == flat[i].Priority {
			verifAssert("hns/same-priority-same-action", flat[i-1].Action == flat[i].Action)
		}
	}
	for _, r := range flat {
		verifAssert("hns/no-pass-left", r.Action == hns.Allow || r.Action == hns.Block)
	}
	c := vNewConn()
	want := vRefVerdict(tiers, drops, c)
	got := vHnsVerdict(flat, c, inbound)
	verifAssert("verdict/hns-equals-policy", got == want)
}

