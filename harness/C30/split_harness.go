package policysets

import (
	"github.com/projectcalico/calico/felix/dataplane/windows/hns"
)

type vNoStatic struct{}

func (vNoStatic) ReadData() ([]byte, error) { return nil, ErrNoRuleSpecified }

// VerifHarness_C30_split: one rule rendered with a small per-rule limit on addresses/ports, so
// that its criteria are spread over several HNS rules: a connection matches some generated rule
// exactly when it matches the policy rule.
func VerifHarness_C30_split() {
	table := verifParam("TABLE", vTableSize)
	inbound := verifChoose("inbound", 2) == 1
	chunk := 1 + verifChoose("chunk", 2)
	ps := NewPolicySets(vHNS{}, []IPSetCache{vSets}, vNoStatic{})
	r := vPick(table, inbound)
	out, err := ps.protoRuleToHnsRules("p", r, inbound, chunk)
	if err != nil {
		verifFail("split/supported-rule-rejected")
	}
	c := vNewConn()
	any := false
	for _, h := range out {
		any = any || vHnsMatch(h, c, inbound)
		verifAssert("split/same-action", (h.Action == hns.Allow) == (vAct(r.Action) == vAllow) && (h.Action == hns.Block) == (vAct(r.Action) == vDeny))
	}
	verifAssert("split/some-rule-matches-iff-policy-rule-matches", any == vRefMatch(r, c))
}
