package intdataplane

import (
	"github.com/projectcalico/calico/felix/ifacemonitor"
	"github.com/projectcalico/calico/felix/ip"
	"github.com/projectcalico/calico/felix/proto"
	"github.com/projectcalico/calico/felix/routetable"
)

// C43 (dataplane half): the IPIP / VXLAN / no-encap route managers turn RouteUpdates into kernel
// routes.  Sym: every RouteUpdate's Types bit mask (32 bit), pool type, SameSubnet, Borrowed,
// LocalWorkload, node-address-known.  Shape: manager kind, parent device known?, remote node's
// tunnel peer known?, K messages over two destinations (a block and a /32), update or remove.

type verifRT struct {
	sets map[routetable.RouteClass]map[string][]routetable.Target
}

func (r *verifRT) OnIfaceStateChanged(name string, ifIndex int, state ifacemonitor.State) {}
func (r *verifRT) QueueResync()                                                          {}
func (r *verifRT) Apply() error                                                          { return nil }
func (r *verifRT) SetRoutes(c routetable.RouteClass, iface string, targets []routetable.Target) {
	if r.sets[c] == nil {
		r.sets[c] = map[string][]routetable.Target{}
	}
	r.sets[c][iface] = targets
}
func (r *verifRT) RouteRemove(c routetable.RouteClass, iface string, k routetable.RouteKey)  {}
func (r *verifRT) RouteUpdate(c routetable.RouteClass, iface string, t routetable.Target)    {}
func (r *verifRT) Index() int                                                              { return 254 }
func (r *verifRT) QueueResyncIface(ifaceName string)                                       {}
func (r *verifRT) ReadRoutesFromKernel(ifaceName string) ([]routetable.Target, error)      { return nil, nil }

type verifOps struct{}

func (verifOps) RecordOperation(name string) {}

func (r *verifRT) find(c routetable.RouteClass, iface string, cidr ip.CIDR) *routetable.Target {
	for i := range r.sets[c][iface] {
		if r.sets[c][iface][i].CIDR == cidr {
			return &r.sets[c][iface][i]
		}
	}
	return nil
}

func (r *verifRT) count(cidr ip.CIDR) int {
	n := 0
	for _, byIface := range r.sets {
		for _, ts := range byIface {
			for i := range ts {
				if ts[i].CIDR == cidr {
					n++
				}
			}
		}
	}
	return n
}

const (
	verifNodeIP   = "192.168.7.2"
	verifPeerIP   = "192.168.7.2"
	verifVTEPAddr = "10.99.0.2"
)

type verifLast struct {
	present       bool
	types         proto.RouteType
	pool          proto.IPPoolType
	same, borrow  bool
	localWorkload bool
	nodeIPKnown   bool
}

func VerifHarness_C43_managers() {
	kind := verifParam("MANAGER", -1) // 0 IPIP, 1 VXLAN, 2 no-encap
	if kind < 0 {
		kind = verifChoose("manager", 3)
	}
	rt := &verifRT{sets: map[routetable.RouteClass]map[string][]routetable.Target{}}
	cfg := Config{Hostname: "n1", ProgramIPIPClusterRoutes: true, IPIPMTU: 1440}
	var onUpdate func(any)
	var complete func() error
	var rm *routeManager
	var poolType proto.IPPoolType
	var classTunnel, classSame, classBH routetable.RouteClass
	tunnelDev := ""
	switch kind {
	case 0:
		m := newIPIPManagerWithShims(rt, "tunl0", 4, 1440, cfg, verifOps{}, nil)
		onUpdate, complete, rm = m.OnUpdate, m.CompleteDeferredWork, m.routeMgr
		poolType, tunnelDev = proto.IPPoolType_IPIP, "tunl0"
		classTunnel, classSame, classBH = routetable.RouteClassIPIPTunnel, routetable.RouteClassIPIPSameSubnet, routetable.RouteClassBlackholeIPIP
	case 1:
		m := &vxlanManager{hostname: "n1", vtepsByNode: map[string]*proto.VXLANTunnelEndpointUpdate{}, ipVersion: 4, mtu: 1410,
			vxlanDevice: "vxlan.calico", dpConfig: cfg, opRecorder: verifOps{}}
		m.routeMgr = newRouteManager(rt, routetable.RouteClassVXLANTunnel, routetable.RouteClassVXLANSameSubnet,
			proto.IPPoolType_VXLAN, "vxlan.calico", 4, 1410, cfg, verifOps{}, nil)
		m.routeMgr.setTunnelRouteFunc(m.tunnelRoute)
		// VTEP bookkeeping (FDB, allowed-sources IP set) is not the subject: route manager only
		onUpdate, complete, rm = func(msg any) {
			switch u := msg.(type) {
			case *proto.VXLANTunnelEndpointUpdate:
				m.vtepsByNode[u.Node] = u
				m.routeMgr.triggerRouteUpdate()
			default:
				m.OnUpdate(msg)
			}
		}, m.routeMgr.CompleteDeferredWork, m.routeMgr
		poolType, tunnelDev = proto.IPPoolType_VXLAN, "vxlan.calico"
		classTunnel, classSame, classBH = routetable.RouteClassVXLANTunnel, routetable.RouteClassVXLANSameSubnet, routetable.RouteClassBlackholeVXLAN
	default:
		m := newNoEncapManagerWithSims(rt, 4, cfg, verifOps{}, nil)
		onUpdate, complete, rm = m.OnUpdate, m.CompleteDeferredWork, m.routeMgr
		poolType = proto.IPPoolType_NO_ENCAP
		classTunnel, classSame, classBH = routetable.RouteClassNoEncap, routetable.RouteClassNoEncap, routetable.RouteClassBlackholeNoEncap
	}
	parentKnown := verifChoose("parent-device-known", 2) == 1
	if parentKnown {
		rm.OnParentDeviceUpdate("eth0")
	}
	peerKnown := verifChoose("peer-known", 2) == 1
	if peerKnown {
		switch kind {
		case 0:
			onUpdate(&proto.HostMetadataUpdate{Hostname: "n2", Ipv4Addr: verifPeerIP})
		case 1:
			onUpdate(&proto.VXLANTunnelEndpointUpdate{Node: "n2", Ipv4Addr: verifVTEPAddr, Mac: "66:aa:bb:cc:dd:02", ParentDeviceIp: verifNodeIP})
		}
	}

	dsts := []string{"10.0.1.0/26", "10.0.1.5/32"}
	var last [2]verifLast
	k := verifParam("K", 2)
	for i := 0; i < k; i++ {
		d := verifChoose("dst", 2)
		if verifChoose("remove", 3) == 0 {
			onUpdate(&proto.RouteRemove{Dst: dsts[d]})
			last[d] = verifLast{}
			continue
		}
		l := verifLast{present: true}
		l.types = proto.RouteType(verifU32("types"))
		l.pool = proto.IPPoolType(verifU8("pool"))
		verifAssume(l.pool <= 3)
		l.same = verifBool("same-subnet")
		l.borrow = verifBool("borrowed")
		l.localWorkload = verifBool("local-workload")
		l.nodeIPKnown = verifChoose("node-ip-known", 2) == 1
		msg := &proto.RouteUpdate{Types: l.types, IpPoolType: l.pool, Dst: dsts[d], DstNodeName: "n2",
			SameSubnet: l.same, Borrowed: l.borrow, LocalWorkload: l.localWorkload}
		if l.nodeIPKnown {
			msg.DstNodeIp = verifNodeIP
		}
		onUpdate(msg)
		last[d] = l
	}
	// with no parent device known CompleteDeferredWork logs the failed detection and falls back to
	// tunnel routes only
	verifAssert("complete/no-error", complete() == nil)

	for d := 0; d < 2; d++ {
		cidr := ip.MustParseCIDROrIP(dsts[d])
		l := last[d]
		has := func(t proto.RouteType) bool { return l.types&t == t }
		wanted := l.present && l.pool == poolType &&
			(has(proto.RouteType_REMOTE_WORKLOAD) || (has(proto.RouteType_REMOTE_TUNNEL) && l.borrow))
		direct := wanted && parentKnown && l.nodeIPKnown && (poolType == proto.IPPoolType_NO_ENCAP || l.same)
		dt := rt.find(classSame, "eth0", cidr)
		verifAssert("direct/iff-unencapsulated-or-same-subnet", (dt != nil) == direct)
		if dt != nil {
			verifAssert("direct/via-owning-nodes-address", dt.GW == ip.FromString(verifNodeIP) && dt.Type == routetable.TargetTypeNoEncap)
		}
		// tunnel route: wanted, not direct, and the tunnel peer is resolvable
		tunnel := wanted && !direct
		switch kind {
		case 0:
			tunnel = tunnel && peerKnown
		case 1:
			directlyConnected := has(proto.RouteType_REMOTE_TUNNEL) && (has(proto.RouteType_REMOTE_WORKLOAD) || l.borrow)
			tunnel = tunnel && (peerKnown || directlyConnected)
		default:
			tunnel = false
		}
		tt := rt.find(classTunnel, tunnelDev, cidr)
		if kind != 2 {
			verifAssert("tunnel/iff-otherwise", (tt != nil) == tunnel)
			if tt != nil && kind == 0 {
				verifAssert("tunnel/ipip-via-peer", tt.GW == ip.FromString(verifPeerIP) && tt.Type == routetable.TargetTypeOnLink)
			}
		} else {
			verifAssert("tunnel/none-for-unencapsulated", len(rt.sets[classTunnel][""]) == 0)
		}
		blackhole := l.present && has(proto.RouteType_LOCAL_WORKLOAD) && l.pool == poolType && !l.localWorkload && d == 0
		bt := rt.find(classBH, routetable.InterfaceNone, cidr)
		verifAssert("blackhole/iff-local-block", (bt != nil) == blackhole)
		if bt != nil {
			verifAssert("blackhole/type", bt.Type == routetable.TargetTypeBlackhole)
			verifAssert("blackhole/never-a-local-workloads-own-address", !l.localWorkload && d == 0)
		}
		exp := 0
		if direct {
			exp++
		}
		if tunnel {
			exp++
		}
		if blackhole {
			exp++
		}
		verifAssert("no-other-route-for-destination", rt.count(cidr) == exp)
	}
}
