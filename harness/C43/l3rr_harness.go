package calc

import (
	"unsafe"

	"github.com/projectcalico/calico/felix/ip"
	"github.com/projectcalico/calico/felix/proto"
	"github.com/projectcalico/calico/libcalico-go/lib/backend/api"
	"github.com/projectcalico/calico/libcalico-go/lib/backend/encap"
	"github.com/projectcalico/calico/libcalico-go/lib/backend/model"
	cnet "github.com/projectcalico/calico/libcalico-go/lib/net"
)

// C43 (calculation half): L3RouteResolver.  The local node's subnet is a solver variable (free base
// address and prefix length, twice: before and after a change of the node's own address/subnet);
// pool, remote block (with one address borrowed by the local node), local block, both nodes and the
// subnet change arrive in every order.  The final emitted routes must equal those of a fresh
// resolver fed the final state, with SameSubnet == pool allows cross-subnet && owning node inside
// the local node's final subnet.

type verifV4CIDR struct {
	addr   [4]byte
	prefix uint8
}

// verifSubnet builds an ip.V4CIDR with a free 32-bit base address (normalised) and a prefix length
// forked over the given list, without going through the mask-building loops of package net.  The
// all-zero value 0.0.0.0/0 is the resolver's "subnet not known" sentinel, so lengths start at 1.
func verifSubnet(name string, plens []int) (ip.V4CIDR, uint32, uint32) {
	a := verifU32(name + "-addr")
	var pl uint8
	if verifParam("SYMPLEN", 0) == 1 {
		pl = verifU8(name + "-plen-free") // every prefix length 1..32 as one solver variable
		verifAssume(pl >= 1 && pl <= 32)
	} else {
		pl = uint8(plens[verifChoose(name+"-plen", len(plens))])
	}
	mask := uint32(0xffffffff) << (32 - uint32(pl))
	a &= mask
	m := verifV4CIDR{addr: [4]byte{byte(a >> 24), byte(a >> 16), byte(a >> 8), byte(a)}, prefix: pl}
	return *(*ip.V4CIDR)(unsafe.Pointer(&m)), a, mask
}

func verifPlens(param string, few []int) []int {
	if verifParam(param, 0) == 0 {
		return few
	}
	all := make([]int, 32)
	for i := range all {
		all[i] = i + 1
	}
	return all
}

type verifRoutes struct {
	routes map[string]*proto.RouteUpdate
}

func (r *verifRoutes) OnRouteUpdate(u *proto.RouteUpdate) { r.routes[u.Dst] = u }
func (r *verifRoutes) OnRouteRemove(dst string)           { delete(r.routes, dst) }

var (
	verifN1Addr = ip.FromString("192.168.1.1").(ip.V4Addr)
	verifN2Addr = ip.FromString("172.16.9.2").(ip.V4Addr)
)

const (
	verifN1U32 = uint32(192)<<24 | 168<<16 | 1<<8 | 1
	verifN2U32 = uint32(172)<<24 | 16<<16 | 9<<8 | 2
)

func verifPoolUpdate(kind int) api.Update {
	_, cidr, _ := cnet.ParseCIDR("10.0.0.0/16")
	p := &model.IPPool{CIDR: *cidr, IPIPMode: encap.Never, VXLANMode: encap.Never, Masquerade: true}
	switch kind {
	case 0:
		p.IPIPMode = encap.CrossSubnet
	case 1:
		p.VXLANMode = encap.CrossSubnet
	case 2:
		p.IPIPMode = encap.Always
	}
	return api.Update{KVPair: model.KVPair{Key: model.IPPoolKey{CIDR: model.PrefixFromIPNet(*cidr)}, Value: p}}
}

func verifBlockUpdate(cidrStr, host string, borrowedOrdinal int, borrower string) api.Update {
	_, cidr, _ := cnet.ParseCIDR(cidrStr)
	aff := "host:" + host
	b := &model.AllocationBlock{CIDR: *cidr, Affinity: &aff, Allocations: make([]*int, 64)}
	if borrowedOrdinal >= 0 {
		zero := 0
		b.Allocations[borrowedOrdinal] = &zero
		b.Attributes = []model.AllocationAttribute{{ActiveOwnerAttrs: map[string]string{model.IPAMBlockAttributeNode: borrower}}}
	}
	return api.Update{KVPair: model.KVPair{Key: model.BlockKey{CIDR: model.PrefixFromIPNet(*cidr)}, Value: b}}
}

func verifFeed(r *L3RouteResolver, op int, poolKind int, s1, s2 ip.V4CIDR) {
	switch op {
	case 0:
		r.OnPoolUpdate(verifPoolUpdate(poolKind))
	case 1:
		r.OnBlockUpdate(verifBlockUpdate("10.0.1.0/26", "n2", 5, "n1"))
	case 2:
		r.onNodeUpdate("n1", &l3rrNodeInfo{V4Addr: verifN1Addr, V4CIDR: s1})
		r.flush()
	case 3:
		r.onNodeUpdate("n2", &l3rrNodeInfo{V4Addr: verifN2Addr, V4CIDR: ip.MustParseCIDROrIP("172.16.9.0/24").(ip.V4CIDR)})
		r.flush()
	case 4:
		r.onNodeUpdate("n1", &l3rrNodeInfo{V4Addr: verifN1Addr, V4CIDR: s2})
		r.flush()
	case 5:
		r.OnBlockUpdate(verifBlockUpdate("10.0.2.0/26", "n1", -1, ""))
	}
}

func verifSameRoute(a, b *proto.RouteUpdate) bool {
	if a == nil || b == nil {
		return a == b
	}
	return a.Types == b.Types && a.IpPoolType == b.IpPoolType && a.Dst == b.Dst && a.DstNodeName == b.DstNodeName &&
		a.DstNodeIp == b.DstNodeIp && a.SameSubnet == b.SameSubnet && a.NatOutgoing == b.NatOutgoing &&
		a.LocalWorkload == b.LocalWorkload && a.Borrowed == b.Borrowed && (a.TunnelType == nil) == (b.TunnelType == nil)
}

func VerifHarness_C43_resolver() {
	poolKind := verifChoose("pool", verifParam("POOLS", 4)) // 0 IPIP cross-subnet, 1 VXLAN cross-subnet, 2 IPIP always, 3 no encapsulation
	s1, _, _ := verifSubnet("subnet1", []int{24, 8})
	s2, a2, m2 := verifSubnet("subnet2", verifPlens("ALLPLENS", []int{1, 8, 16, 23, 24, 25, 31, 32}))
	nops := verifParam("OPS", 6)
	// every order of the updates (Lehmer code), the subnet change (4) never before the first
	// announcement of the local node (2)
	ops := []int{0, 1, 2, 3, 4, 5}[:nops]
	for i := 0; i+1 < len(ops); i++ {
		j := i + verifChoose("order", len(ops)-i)
		ops[i], ops[j] = ops[j], ops[i]
	}
	p2, p4 := -1, -1
	for i, o := range ops {
		if o == 2 {
			p2 = i
		}
		if o == 4 {
			p4 = i
		}
	}
	verifAssume(p4 < 0 || p2 < p4)
	got := &verifRoutes{routes: map[string]*proto.RouteUpdate{}}
	r := NewL3RouteResolver("n1", got, "CalicoIPAM")
	r.OnAlive = func() {}
	for _, o := range ops {
		verifFeed(r, o, poolKind, s1, s2)
	}
	// reference 1: a fresh resolver fed only the final state, in a fixed order
	want := &verifRoutes{routes: map[string]*proto.RouteUpdate{}}
	f := NewL3RouteResolver("n1", want, "CalicoIPAM")
	f.OnAlive = func() {}
	final := s1
	if p4 >= 0 {
		final = s2
	}
	for _, o := range []int{0, 3, 1, 5} {
		if o < nops {
			verifFeed(f, o, poolKind, final, final)
		}
	}
	verifFeed(f, 2, poolKind, final, final)
	verifAssert("final/same-number-of-routes", len(got.routes) == len(want.routes))
	for dst, w := range want.routes {
		verifAssert("final/equals-fresh-resolver", verifSameRoute(got.routes[dst], w))
	}
	// reference 2: the rule itself, for the remote block and the borrowed address
	if p4 >= 0 {
		cross := poolKind <= 1
		if blk := got.routes["10.0.1.0/26"]; blk != nil {
			verifAssert("rule/same-subnet-iff-cross-subnet-pool-and-node-in-local-subnet",
				blk.SameSubnet == (cross && verifN2U32&m2 == a2))
			verifAssert("rule/remote-block-via-owning-node", blk.DstNodeName == "n2" && blk.Types&proto.RouteType_REMOTE_WORKLOAD != 0)
		}
		if bor := got.routes["10.0.1.5/32"]; bor != nil {
			verifAssert("rule/borrowed-address-flagged", bor.Borrowed && bor.DstNodeName == "n1")
			verifAssert("rule/borrowed-same-subnet", bor.SameSubnet == (cross && verifN1U32&m2 == a2))
		}
	}
}
