package rules

import (
	"strings"

	"github.com/projectcalico/calico/felix/ipsets"
)

// C41 (rule half): the rendered nftables offload rule offloads a flow only if it is already
// established (or related) and neither its source nor its destination is in the no-flow-offload
// set; and it sits ahead of every other rule of the forward chain.
// Sym: connection state bits, set membership of source and destination.

func VerifHarness_C41_offloadrule() {
	cfg := Config{
		IPSetConfigV4: ipsets.NewIPVersionConfig(ipsets.IPFamilyV4, "cali", nil, nil),
		IPSetConfigV6: ipsets.NewIPVersionConfig(ipsets.IPFamilyV6, "cali", nil, nil),
		MarkAccept:    0x80, MarkPass: 0x100, MarkScratch0: 0x200, MarkScratch1: 0x400, MarkDrop: 0x800,
		MarkEndpoint:             0xff000,
		WorkloadIfacePrefixes:    []string{"cali"},
		NFTablesFlowTableOffload: true,
	}
	rr := NewRenderer(cfg, true).(*DefaultRuleRenderer)
	chains := rr.StaticFilterForwardChains(4)
	setName := rr.ipSetConfig(4).NameForMainIPSet(IPSetIDNoFlowOffload)
	found := -1
	for _, c := range chains {
		if c.Name != ChainFilterForward {
			continue
		}
		for i, r := range c.Rules {
			if strings.HasPrefix(r.Action.ToFragment(nil), "flow offload") {
				verifAssert("offload/single-rule", found < 0)
				found = i
				// the kernel's view of one packet of a flow
				established, related, isNew := verifBool("ct.established"), verifBool("ct.related"), verifBool("ct.new")
				srcIn, dstIn := verifBool("src-in-set"), verifBool("dst-in-set")
				matches := true
				text := r.Match.Render()
				w := strings.Fields(text)
				for j := 0; j < len(w); {
					switch {
					case j+2 < len(w) && w[j] == "ct" && w[j+1] == "state":
						ok := false
						for _, s := range strings.Split(w[j+2], ",") {
							switch s {
							case "established":
								ok = ok || established
							case "related":
								ok = ok || related
							case "new":
								ok = ok || isNew
							default:
								verifFail("oracle/unknown-ct-state")
							}
						}
						matches = matches && ok
						j += 3
					case j+3 < len(w) && w[j] == "ip" && (w[j+1] == "saddr" || w[j+1] == "daddr") && w[j+2] == "!=" && strings.HasPrefix(w[j+3], "@"):
						verifAssert("offload/refers-to-the-exclusion-set", strings.HasSuffix(w[j+3], strings.ReplaceAll(setName, ":", "-")) || w[j+3] == "@"+setName || strings.Contains(w[j+3], "no-flow-offload"))
						if w[j+1] == "saddr" {
							matches = matches && !srcIn
						} else {
							matches = matches && !dstIn
						}
						j += 4
					default:
						verifFail("oracle/unknown-match-fragment")
					}
				}
				verifAssert("offload/only-established-flows-outside-the-set", matches == ((established || related) && !srcIn && !dstIn))
			}
		}
	}
	verifAssert("offload/rule-present-and-first", found == 0)
}
