package intdataplane

import (
	dpsets "github.com/projectcalico/calico/felix/dataplane/ipsets"
	"github.com/projectcalico/calico/felix/ipsets"
	"github.com/projectcalico/calico/felix/proto"
)

// C41 (manager half): after any sequence of endpoint updates and removals, the no-flow-offload IP
// set holds exactly the current addresses of every workload endpoint with DSCP marking or a
// connection / packet-rate limit and of every host endpoint with DSCP marking.
// Sym: the four limits (64 bit each), DSCP-policy present, whether deferred work is completed after
// each step.  Shape: K operations over two workload endpoints and one host endpoint, address lists
// from a table (shared addresses, masks, empty).

type verifIPSetsDP struct {
	dpsets.IPSetsDataplane
	calls   int
	setID   string
	members []string
}

func (d *verifIPSetsDP) AddOrReplaceIPSet(meta ipsets.IPSetMetadata, members []string) {
	d.calls++
	d.setID = meta.SetID
	d.members = append([]string(nil), members...)
}

var verifAddrLists = [][]string{{"10.0.0.1/32"}, {"10.0.0.2/32", "10.0.0.1/32"}, {}, {"10.0.0.3/32"}}
var verifHostAddrs = [][]string{{"192.168.0.1"}, {"192.168.0.1", "10.0.0.1"}}

func verifStrip(l []string) []string {
	var out []string
	for _, a := range l {
		for i := 0; i < len(a); i++ {
			if a[i] == '/' {
				a = a[:i]
				break
			}
		}
		out = append(out, a)
	}
	return out
}

func VerifHarness_C41_exclusion() {
	dp := &verifIPSetsDP{}
	m := newFlowtableExclusionManager(dp, 4, 1000)
	wepIDs := []*proto.WorkloadEndpointID{
		{OrchestratorId: "k8s", WorkloadId: "ns/pod-a", EndpointId: "eth0"},
		{OrchestratorId: "k8s", WorkloadId: "ns/pod-b", EndpointId: "eth0"},
	}
	hepID := &proto.HostEndpointID{EndpointId: "hep-1"}
	var wepAddrs [2][]string // model: addresses of workload endpoints that need per-packet hooks
	var hepAddrs []string
	wepIn := [2]bool{}
	hepIn := false
	k := verifParam("K", 3)
	for step := 0; step < k; step++ {
		switch verifChoose("op", 4) {
		case 0: // workload update
			i := verifChoose("wep", 2)
			ep := &proto.WorkloadEndpoint{Name: "cali1"}
			al := verifChoose("addrs", len(verifAddrLists))
			ep.Ipv4Nets = verifAddrLists[al]
			ep.Ipv6Nets = []string{"fd00::1/128"}
			dscp := verifBool("dscp")
			if dscp {
				ep.QosPolicies = []*proto.QoSPolicy{{Dscp: 10}}
			}
			needs := dscp
			if verifBool("has-controls") {
				q := &proto.QoSControls{
					IngressMaxConnections: int64(verifU64("in-conns")), EgressMaxConnections: int64(verifU64("out-conns")),
					IngressPacketRate: int64(verifU64("in-pps")), EgressPacketRate: int64(verifU64("out-pps")),
					IngressBandwidth: int64(verifU64("in-bw")), // bandwidth alone needs no forward hooks
				}
				ep.QosControls = q
				needs = needs || q.IngressMaxConnections != 0 || q.EgressMaxConnections != 0 || q.IngressPacketRate != 0 || q.EgressPacketRate != 0
			}
			m.OnUpdate(&proto.WorkloadEndpointUpdate{Id: wepIDs[i], Endpoint: ep})
			wepIn[i] = needs
			wepAddrs[i] = verifStrip(verifAddrLists[al])
		case 1:
			i := verifChoose("wep", 2)
			m.OnUpdate(&proto.WorkloadEndpointRemove{Id: wepIDs[i]})
			wepIn[i] = false
		case 2:
			ep := &proto.HostEndpoint{Name: "eth0"}
			al := verifChoose("host-addrs", len(verifHostAddrs))
			ep.ExpectedIpv4Addrs = verifHostAddrs[al]
			dscp := verifBool("dscp")
			if dscp {
				ep.QosPolicies = []*proto.QoSPolicy{{Dscp: 20}}
			}
			m.OnUpdate(&proto.HostEndpointUpdate{Id: hepID, Endpoint: ep})
			hepIn = dscp
			hepAddrs = verifHostAddrs[al]
		default:
			m.OnUpdate(&proto.HostEndpointRemove{Id: hepID})
			hepIn = false
		}
		if step == k-1 || verifBool("complete-now") {
			verifAssert("complete/no-error", m.CompleteDeferredWork() == nil)
			// the recorded set content equals the model (as a set of addresses)
			want := map[string]bool{}
			for i := 0; i < 2; i++ {
				if wepIn[i] {
					for _, a := range wepAddrs[i] {
						want[a] = true
					}
				}
			}
			if hepIn {
				for _, a := range hepAddrs {
					want[a] = true
				}
			}
			verifAssert("set/written-at-least-once", dp.calls > 0 && dp.setID == "no-flow-offload")
			got := map[string]bool{}
			for _, a := range dp.members {
				got[a] = true
				verifAssert("set/only-addresses-of-endpoints-that-need-hooks", want[a])
			}
			for a := range want {
				verifAssert("set/every-address-of-an-endpoint-that-needs-hooks", got[a])
			}
		}
	}
}

// VerifHarness_C41_shared: two endpoints that need per-packet hooks share an address; then one of
// them is removed, stops needing hooks or changes its addresses: the shared address must stay in
// the set exactly while some endpoint that needs hooks still has it.
func VerifHarness_C41_shared() {
	dp := &verifIPSetsDP{}
	m := newFlowtableExclusionManager(dp, 4, 1000)
	wepIDs := []*proto.WorkloadEndpointID{
		{OrchestratorId: "k8s", WorkloadId: "ns/pod-a", EndpointId: "eth0"},
		{OrchestratorId: "k8s", WorkloadId: "ns/pod-b", EndpointId: "eth0"},
	}
	hepID := &proto.HostEndpointID{EndpointId: "hep-1"}
	mkWep := func(tag string, addrs []string) (*proto.WorkloadEndpoint, bool) {
		ep := &proto.WorkloadEndpoint{Name: "cali1", Ipv4Nets: addrs}
		needs := false
		if verifBool(tag + ".dscp") {
			ep.QosPolicies = []*proto.QoSPolicy{{Dscp: 10}}
			needs = true
		}
		q := &proto.QoSControls{IngressMaxConnections: int64(verifU64(tag + ".in-conns")), EgressPacketRate: int64(verifU64(tag + ".out-pps"))}
		ep.QosControls = q
		needs = needs || q.IngressMaxConnections != 0 || q.EgressPacketRate != 0
		return ep, needs
	}
	var in [3]bool // wep0, wep1, hep
	var addrs [3][]string
	ep0, n0 := mkWep("a", []string{"10.0.0.1/32"})
	m.OnUpdate(&proto.WorkloadEndpointUpdate{Id: wepIDs[0], Endpoint: ep0})
	in[0], addrs[0] = n0, []string{"10.0.0.1"}
	if verifBool("complete-1") {
		_ = m.CompleteDeferredWork()
	}
	second := 1 + verifChoose("second", 2)
	if second == 1 {
		ep1, n1 := mkWep("b", []string{"10.0.0.2/32", "10.0.0.1/32"})
		m.OnUpdate(&proto.WorkloadEndpointUpdate{Id: wepIDs[1], Endpoint: ep1})
		in[1], addrs[1] = n1, []string{"10.0.0.2", "10.0.0.1"}
	} else {
		h := &proto.HostEndpoint{Name: "eth0", ExpectedIpv4Addrs: []string{"192.168.0.1", "10.0.0.1"}}
		d := verifBool("h.dscp")
		if d {
			h.QosPolicies = []*proto.QoSPolicy{{Dscp: 20}}
		}
		m.OnUpdate(&proto.HostEndpointUpdate{Id: hepID, Endpoint: h})
		in[2], addrs[2] = d, []string{"192.168.0.1", "10.0.0.1"}
	}
	if verifBool("complete-2") {
		_ = m.CompleteDeferredWork()
	}
	switch verifChoose("third", 4) {
	case 0:
		m.OnUpdate(&proto.WorkloadEndpointRemove{Id: wepIDs[0]})
		in[0] = false
	case 1:
		if second == 1 {
			m.OnUpdate(&proto.WorkloadEndpointRemove{Id: wepIDs[1]})
		} else {
			m.OnUpdate(&proto.HostEndpointRemove{Id: hepID})
		}
		in[second] = false
	case 2: // the first endpoint no longer needs hooks
		m.OnUpdate(&proto.WorkloadEndpointUpdate{Id: wepIDs[0], Endpoint: &proto.WorkloadEndpoint{Name: "cali1", Ipv4Nets: []string{"10.0.0.1/32"}}})
		in[0] = false
	default: // the first endpoint moves to another address
		ep, n := mkWep("c", []string{"10.0.0.3/32"})
		m.OnUpdate(&proto.WorkloadEndpointUpdate{Id: wepIDs[0], Endpoint: ep})
		in[0], addrs[0] = n, []string{"10.0.0.3"}
	}
	verifAssert("shared/complete-no-error", m.CompleteDeferredWork() == nil)
	want := map[string]bool{}
	for i := range in {
		if in[i] {
			for _, a := range addrs[i] {
				want[a] = true
			}
		}
	}
	got := map[string]bool{}
	for _, a := range dp.members {
		got[a] = true
		verifAssert("shared/only-addresses-of-endpoints-that-need-hooks", want[a])
	}
	for a := range want {
		verifAssert("shared/every-address-of-an-endpoint-that-needs-hooks", got[a])
	}
}
