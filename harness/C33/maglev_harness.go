package consistenthash

import (
	"encoding/binary"

	"k8s.io/apimachinery/pkg/util/sets"
	k8sp "k8s.io/kubernetes/pkg/proxy"
)

// C33: Maglev tables are complete, balanced and node-independent.
// Sym: every digest byte the two hash functions return (fresh per distinct input), hence every
// (offset, skip) pair; backend learn order forked.

// verifHash is a hash.Hash whose digest is an arbitrary function of what was written.
type verifHash struct {
	tag  string
	buf  []byte
	memo map[string][]byte
}

func (h *verifHash) Write(p []byte) (int, error) { h.buf = append(h.buf, p...); return len(p), nil }
func (h *verifHash) Reset()                      { h.buf = h.buf[:0] }
func (h *verifHash) Size() int                   { return 4 }
func (h *verifHash) BlockSize() int              { return 1 }
func (h *verifHash) Sum(b []byte) []byte {
	k := string(h.buf)
	d, ok := h.memo[k]
	if !ok {
		d = verifBytes(h.tag, 4)
		h.memo[k] = d
	}
	return append(b, d...)
}

func verifNewHash(tag string) *verifHash { return &verifHash{tag: tag, memo: map[string][]byte{}} }

type verifEP struct {
	name string
	ip   string
	port int
}

func (e *verifEP) String() string              { return e.name }
func (e *verifEP) IP() string                  { return e.ip }
func (e *verifEP) Port() int                   { return e.port }
func (e *verifEP) IsLocal() bool               { return false }
func (e *verifEP) IsReady() bool               { return true }
func (e *verifEP) IsServing() bool             { return true }
func (e *verifEP) IsTerminating() bool         { return false }
func (e *verifEP) ZoneHints() sets.Set[string] { return nil }
func (e *verifEP) NodeHints() sets.Set[string] { return nil }

var _ k8sp.Endpoint = (*verifEP)(nil)

// VerifHarness_C33_byteorder: the integer a node derives from a digest must not depend on the
// node's CPU byte order.  All deployed little-endian nodes compute the little-endian reading of
// the first four digest bytes, so that is what every architecture must compute.  (The check loads
// the package once per GOARCH; see props/C33.json.)
func VerifHarness_C33_byteorder() {
	h := verifNewHash("digest")
	got, err := hashFromString("10.0.0.1:80", h, []byte{0})
	verifAssert("no-error", err == nil)
	d := h.memo[string(append([]byte{0}, "10.0.0.1:80"...))]
	want := int(binary.LittleEndian.Uint32(d))
	verifAssert("node-independent-digest-reading", got == want)
}

// VerifHarness_C33_permutation: for every (offset, skip) the hashes can produce, a backend's
// preference list is a permutation of 0..M-1 (so Generate's probing can never run off the end).
func VerifHarness_C33_permutation() {
	m := verifParam("M", 7)
	ch := New(m, verifNewHash("h1"), verifNewHash("h2"))
	p, err := ch.permutation("10.0.0.1:80")
	verifAssert("perm-no-error", err == nil)
	verifAssert("perm-len", len(p) == m)
	for i := 0; i < m; i++ {
		verifAssert("perm-in-range", p[i] >= 0 && p[i] < m)
		for j := 0; j < i; j++ {
			verifAssert("perm-distinct", p[i] != p[j])
		}
	}
}

// VerifHarness_C33_generate: with up to N backends learned in either order, the table is
// completely filled with known backends, shares differ by at most one slot round (Maglev
// bound) and the table does not depend on the learn order.
func VerifHarness_C33_generate() {
	m := verifParam("M", 7)
	n := verifParam("N", 2)
	names := []string{"10.0.0.1:80", "10.0.0.2:80", "10.0.0.3:80"}[:n]
	ips := []string{"10.0.0.1", "10.0.0.2", "10.0.0.3"}
	ports := []int{80, 80, 80}
	if verifParam("SAMEIP", 0) == 1 {
		// two backends on one address (host-networked replicas, named target ports)
		names = []string{"10.0.0.1:80", "10.0.0.1:8080", "10.0.0.2:80"}[:n]
		ips = []string{"10.0.0.1", "10.0.0.1", "10.0.0.2"}
		ports = []int{80, 8080, 80}
	}
	eps := make([]*verifEP, n)
	for i := range eps {
		eps[i] = &verifEP{names[i], ips[i], ports[i]}
	}
	h1, h2 := verifNewHash("h1"), verifNewHash("h2")
	fwd := New(m, h1, h2)
	for i := 0; i < n; i++ {
		fwd.AddBackend(eps[i])
	}
	rev := New(m, h1, h2)
	for i := n - 1; i >= 0; i-- {
		rev.AddBackend(eps[i])
	}
	lf := fwd.Generate()
	lr := rev.Generate()
	verifAssert("gen-len", len(lf) == m && len(lr) == m)
	counts := make([]int, n)
	for s := 0; s < m; s++ {
		verifAssert("gen-filled", lf[s] != nil)
		verifAssert("gen-order-independent", lf[s] == lr[s])
		for i := 0; i < n; i++ {
			if lf[s] == k8sp.Endpoint(eps[i]) {
				counts[i]++
			}
		}
	}
	tot := 0
	for i := 0; i < n; i++ {
		tot += counts[i]
		for j := 0; j < n; j++ {
			verifAssert("gen-balanced", counts[i]-counts[j] <= 1)
		}
	}
	verifAssert("gen-only-known-backends", tot == m)
}
