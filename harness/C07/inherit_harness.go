package labelindex

import (
	"github.com/projectcalico/calico/lib/std/uniquelabels"
	"github.com/projectcalico/calico/libcalico-go/lib/selector"
)

// C07 (part 1): indexed selector matching equals direct evaluation.
// Sym: every label value (one free byte each) of items and parents.  Shape: K operations chosen
// from update/delete labels, update/delete parent labels, update/delete selector over 2 items,
// 2 parents and a table of selectors covering every node kind.

var verifSelectors = []string{
	"a == 'x'",
	"a != 'x'",
	"has(b)",
	"!has(b)",
	"a in {'x', 'y'}",
	"a not in {'x'}",
	"a == 'x' && has(b)",
	"a == 'y' || b == 'x'",
	"all()",
	"a starts with 'x'",
	"a in {'x', 'y'} && (a == 'y' || a == 'x')", // value restrictions intersected with an out-of-order union
	"(a == 'y' || a == 'x') && (b == 'y' || b == 'x' || has(a))",
}

type verifRefIndex struct {
	itemLabels   [2]map[string]string
	itemParents  [2][]string
	parentLabels map[string]map[string]string
	sels         map[int]string
	matches      map[[2]int]bool
}

func verifVal(name string) string {
	s := verifString(name, 1)
	verifAssume(s[0] == 'x' || s[0] == 'y' || s[0] == 'z')
	return s
}

func verifLabelMap(tag string) map[string]string {
	m := map[string]string{}
	if verifBool(tag + ".has-a") {
		m["a"] = verifVal(tag + ".a")
	}
	if verifBool(tag + ".has-b") {
		m["b"] = verifVal(tag + ".b")
	}
	return m
}

func (m *verifRefIndex) effective(item int) (map[string]string, bool) {
	if m.itemLabels[item] == nil {
		return nil, false
	}
	eff := map[string]string{}
	// parents in reverse so that earlier parents win, then own labels win
	ps := m.itemParents[item]
	for i := len(ps) - 1; i >= 0; i-- {
		for k, v := range m.parentLabels[ps[i]] {
			eff[k] = v
		}
	}
	for k, v := range m.itemLabels[item] {
		eff[k] = v
	}
	return eff, true
}

func VerifHarness_C07_inherit() {
	kmax := verifParam("K", 3)
	nsel := verifParam("NSEL", len(verifSelectors))
	m := &verifRefIndex{parentLabels: map[string]map[string]string{}, sels: map[int]string{}, matches: map[[2]int]bool{}}
	idx := NewInheritIndex(
		func(selID, labelID any) {
			k := [2]int{selID.(int), labelID.(int)}
			verifAssert("callback/start-only-when-stopped", !m.matches[k])
			m.matches[k] = true
		},
		func(selID, labelID any) {
			k := [2]int{selID.(int), labelID.(int)}
			verifAssert("callback/stop-only-when-started", m.matches[k])
			delete(m.matches, k)
		})
	parents := []string{"p0", "p1"}
	// PHASED: a fixed prefix (labels for both parents, one selector, one item with parents) precedes
	// the K free steps, so that short free suffixes reach states that need several set-up steps
	// (e.g. re-ordering the parents of an item whose parents define the same label differently).
	prefix := []int{}
	if verifParam("PHASED", 0) == 1 {
		prefix = []int{2, 2, 4, 0}
	}
	for step := 0; step < len(prefix)+kmax; step++ {
		op := 0
		if step < len(prefix) {
			op = prefix[step]
		} else {
			op = verifChoose("op", 6)
		}
		switch op {
		case 0:
			it := 0
			var labels map[string]string
			if step < len(prefix) {
				labels = map[string]string{} // set-up: item 0 inherits everything
				if verifBool("item.has-b") {
					labels["b"] = verifVal("item.b")
				}
			} else {
				it = verifChoose("item", 2)
				labels = verifLabelMap("item")
			}
			var ps []string
			switch verifChoose("parents", 4) {
			case 1:
				ps = []string{"p0"}
			case 2:
				ps = []string{"p1", "p0"}
			case 3:
				ps = []string{"p0", "p1"}
			}
			m.itemLabels[it] = labels
			m.itemParents[it] = ps
			idx.UpdateLabels(it, uniquelabels.Make(labels), ps)
		case 1:
			it := verifChoose("item", 2)
			m.itemLabels[it] = nil
			m.itemParents[it] = nil
			idx.DeleteLabels(it)
		case 2:
			pi := step // in the prefix: first p0, then p1
			if step >= len(prefix) {
				pi = verifChoose("parent", 2)
			}
			p := parents[pi]
			var labels map[string]string
			if step < len(prefix) {
				labels = map[string]string{"a": verifVal("parent.a")} // set-up: both parents define label a
			} else {
				labels = verifLabelMap("parent")
			}
			m.parentLabels[p] = labels
			idx.UpdateParentLabels(p, labels)
		case 3:
			p := parents[verifChoose("parent", 2)]
			delete(m.parentLabels, p)
			idx.DeleteParentLabels(p)
		case 4:
			s := 0
			if step >= len(prefix) {
				s = verifChoose("sel", 2)
			}
			text := verifSelectors[verifChoose("seltext", nsel)]
			sel, err := selector.Parse(text)
			verifAssert("selector-table-parses", err == nil)
			m.sels[s] = text
			idx.UpdateSelector(s, sel)
		case 5:
			s := verifChoose("sel", 2)
			delete(m.sels, s)
			idx.DeleteSelector(s)
		}
		// after every operation: started matches == direct evaluation
		for s := 0; s < 2; s++ {
			for it := 0; it < 2; it++ {
				want := false
				if text, ok := m.sels[s]; ok {
					if eff, live := m.effective(it); live {
						sel, _ := selector.Parse(text)
						want = sel.Evaluate(eff)
					}
				}
				verifAssert("matches-equal-direct-evaluation", m.matches[[2]int{s, it}] == want)
			}
		}
	}
}
