package hashring

// C45: every node elects the same owner for a load-balancer address.
// Sym: the hash of every distinct input (fresh uint64 per input: all placements incl. ties),
// the operation kind and member index per step.  Shape: K steps over N member names.

var verifNames = []string{"node-a", "node-b", "node-c", "node-d"}

func verifHasher() Hash {
	memo := map[string]uint64{}
	return func(b []byte) uint64 {
		k := string(b)
		if v, ok := memo[k]; ok {
			return v
		}
		v := verifU64("h")
		memo[k] = v
		return v
	}
}

// VerifHarness_C45_history: after an arbitrary insert/remove/lookup history the ring answers
// like a ring built fresh from the final member set (in either insertion order).
func VerifHarness_C45_history() {
	kmax := verifParam("K", 4)
	n := verifParam("N", 3)
	replicas := verifParam("REPLICAS", 1)
	probes := verifParam("PROBES", 1)
	h := verifHasher()
	r := New[int](WithHash(h), WithReplicas(replicas), WithProbes(probes))
	live := make([]bool, n)
	for i := 0; i < kmax; i++ {
		op := verifChoose("op", 3)
		m := verifChoose("m", n)
		switch op {
		case 0:
			r.Insert(verifNames[m], m+1)
			live[m] = true
		case 1:
			r.Remove(verifNames[m])
			live[m] = false
		case 2:
			v, ok := r.Lookup("probe-mid")
			nl := 0
			for _, l := range live {
				if l {
					nl++
				}
			}
			verifAssert("mid/found-iff-nonempty", ok == (nl > 0))
			if ok {
				verifAssert("mid/owner-is-live", v >= 1 && v <= n && live[v-1])
			}
		}
	}
	nl := 0
	for _, l := range live {
		if l {
			nl++
		}
	}
	verifAssert("len", r.Len() == nl)
	fresh := New[int](WithHash(h), WithReplicas(replicas), WithProbes(probes))
	for m := 0; m < n; m++ {
		if live[m] {
			fresh.Insert(verifNames[m], m+1)
		}
	}
	rev := New[int](WithHash(h), WithReplicas(replicas), WithProbes(probes))
	for m := n - 1; m >= 0; m-- {
		if live[m] {
			rev.Insert(verifNames[m], m+1)
		}
	}
	for _, key := range []string{"10.0.0.1", "10.0.0.2"} {
		v, ok := r.Lookup(key)
		fv, fok := fresh.Lookup(key)
		rv, rok := rev.Lookup(key)
		verifAssert("found-iff-nonempty", ok == (nl > 0) && fok == ok && rok == ok)
		if ok {
			verifAssert("owner-is-live", v >= 1 && v <= n && live[v-1])
			verifAssert("history-independent", v == fv)
			verifAssert("order-independent", fv == rv)
		}
	}
}

// VerifHarness_C45_phased: insert all members, remove a symbolic subset, optionally look up
// (which triggers the deferred sweep/sort), re-insert a symbolic subset, optionally look up,
// remove another symbolic subset; then compare with fresh rings.  Covers the deferred-delete
// and re-insert-while-pending-delete paths with far fewer shapes than free histories.
func VerifHarness_C45_phased() {
	n := verifParam("N", 3)
	replicas := verifParam("REPLICAS", 1)
	probes := verifParam("PROBES", 1)
	h := verifHasher()
	r := New[int](WithHash(h), WithReplicas(replicas), WithProbes(probes))
	live := make([]bool, n)
	for m := 0; m < n; m++ {
		r.Insert(verifNames[m], m+1)
		live[m] = true
	}
	for phase := 0; phase < 3; phase++ {
		for m := 0; m < n; m++ {
			if verifBool("toggle") {
				if phase == 1 {
					r.Insert(verifNames[m], m+1)
					live[m] = true
				} else {
					r.Remove(verifNames[m])
					live[m] = false
				}
			}
		}
		if phase < 2 && verifBool("midlookup") {
			v, ok := r.Lookup("probe-mid")
			nl := 0
			for _, l := range live {
				if l {
					nl++
				}
			}
			verifAssert("mid/found-iff-nonempty", ok == (nl > 0))
			if ok {
				verifAssert("mid/owner-is-live", v >= 1 && v <= n && live[v-1])
			}
		}
	}
	nl := 0
	for _, l := range live {
		if l {
			nl++
		}
	}
	verifAssert("len", r.Len() == nl)
	fresh := New[int](WithHash(h), WithReplicas(replicas), WithProbes(probes))
	rev := New[int](WithHash(h), WithReplicas(replicas), WithProbes(probes))
	for m := 0; m < n; m++ {
		if live[m] {
			fresh.Insert(verifNames[m], m+1)
		}
		if live[n-1-m] {
			rev.Insert(verifNames[n-1-m], n-m)
		}
	}
	v, ok := r.Lookup("10.0.0.1")
	fv, fok := fresh.Lookup("10.0.0.1")
	rv, rok := rev.Lookup("10.0.0.1")
	verifAssert("found-iff-nonempty", ok == (nl > 0) && fok == ok && rok == ok)
	if ok {
		verifAssert("owner-is-live", v >= 1 && v <= n && live[v-1])
		verifAssert("history-independent", v == fv)
		verifAssert("order-independent", fv == rv)
	}
}
