package dedupebuffer

import (
	"github.com/projectcalico/calico/libcalico-go/lib/backend/api"
	"github.com/projectcalico/calico/libcalico-go/lib/backend/model"
)

// C25: reconnecting to Typha converges without stale or lost resources.
// Sym: the value (revision byte) of every upstream write.  Shape: K steps chosen from
// {set key, delete key, downstream pull, reconnect+resync with pulls interleaved}.

var verifKeys = []model.Key{model.GlobalConfigKey{Name: "k0"}, model.GlobalConfigKey{Name: "k1"}, model.GlobalConfigKey{Name: "k2"}}

type verifSink struct {
	held   map[model.Key]any
	status api.SyncStatus
}

func (s *verifSink) OnStatusUpdated(st api.SyncStatus) { s.status = st }

func (s *verifSink) OnUpdates(us []api.Update) {
	for _, u := range us {
		_, had := s.held[u.Key]
		if u.Value == nil {
			verifAssert("sink/delete-only-of-held-key", had)
			verifAssert("sink/delete-type", u.UpdateType == api.UpdateTypeKVDeleted)
			delete(s.held, u.Key)
		} else {
			if had {
				verifAssert("sink/update-type-updated", u.UpdateType == api.UpdateTypeKVUpdated)
			} else {
				verifAssert("sink/update-type-new", u.UpdateType == api.UpdateTypeKVNew)
			}
			s.held[u.Key] = u.Value
		}
	}
}

func verifSet(d *DedupeBuffer, k model.Key, v any) {
	d.OnUpdates([]api.Update{{KVPair: model.KVPair{Key: k, Value: v}, UpdateType: api.UpdateTypeKVNew}})
}

func verifDel(d *DedupeBuffer, k model.Key) {
	d.OnUpdates([]api.Update{{KVPair: model.KVPair{Key: k, Value: nil}, UpdateType: api.UpdateTypeKVDeleted}})
}

// verifResync: a new Typha connection replays the datastore view.  If aborted, the connection
// dies after replaying a symbolic number of keys and never reports in-sync.
func verifResync(d *DedupeBuffer, sink *verifSink, up map[model.Key]any, nkeys int, aborted bool, incomplete *bool) {
	d.OnTyphaConnectionRestarted()
	d.OnStatusUpdated(api.ResyncInProgress)
	limit := nkeys
	if aborted {
		limit = verifChoose("replayed-before-abort", nkeys+1)
	}
	sent := 0
	for _, k := range verifKeys[:nkeys] {
		if v, ok := up[k]; ok {
			if sent >= limit {
				break
			}
			sent++
			verifSet(d, k, v)
			if verifBool("pull-during-resync") {
				_ = d.sendNextBatchToSinkNoBlock(sink)
			}
		}
	}
	if aborted {
		*incomplete = true
		return
	}
	*incomplete = false
	d.OnStatusUpdated(api.InSync)
}

func VerifHarness_C25_history() {
	kmax := verifParam("K", 4)
	nkeys := verifParam("NKEYS", 2)
	d := New()
	sink := &verifSink{held: map[model.Key]any{}}
	up := map[model.Key]any{} // the datastore as the current Typha connection sees it
	incomplete := false
	d.OnStatusUpdated(api.ResyncInProgress)
	for i := 0; i < kmax; i++ {
		switch verifChoose("op", 4) {
		case 0:
			k := verifKeys[verifChoose("key", nkeys)]
			v := verifU8("rev")
			up[k] = v
			if !incomplete { // no live connection while a replay is aborted: only the datastore changes
				verifSet(d, k, v)
			}
		case 1:
			k := verifKeys[verifChoose("key", nkeys)]
			if _, ok := up[k]; ok {
				delete(up, k)
				if !incomplete {
					verifDel(d, k)
				}
			}
		case 2:
			_ = d.sendNextBatchToSinkNoBlock(sink)
		case 3:
			// connection lost: while disconnected the datastore may change (one symbolic change),
			// then the new connection replays its whole view and reports in-sync
			if verifBool("changed-while-down") {
				k := verifKeys[verifChoose("key", nkeys)]
				if verifBool("deleted-while-down") {
					delete(up, k)
				} else {
					up[k] = verifU8("rev")
				}
			}
			verifResync(d, sink, up, nkeys, verifBool("aborted"), &incomplete)
		}
	}
	if incomplete {
		// the last connection died mid-replay: the client reconnects and completes a replay
		verifResync(d, sink, up, nkeys, false, &incomplete)
	}
	d.OnStatusUpdated(api.InSync)
	for d.sendNextBatchToSinkNoBlock(sink) == nil {
	}
	// quiescent: the sink holds exactly the latest connection's view
	verifAssert("end/in-sync-delivered", sink.status == api.InSync)
	verifAssert("end/same-size", len(sink.held) == len(up))
	for _, k := range verifKeys[:nkeys] {
		uv, uok := up[k]
		sv, sok := sink.held[k]
		verifAssert("end/same-keys", uok == sok)
		if uok && sok {
			verifAssert("end/same-values", uv.(uint8) == sv.(uint8))
		}
	}
}
