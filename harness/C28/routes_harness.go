package calico

import (
	v3 "github.com/projectcalico/api/pkg/apis/projectcalico/v3"
	log "github.com/sirupsen/logrus"

	felixconfig "github.com/projectcalico/calico/felix/config"
	"github.com/projectcalico/calico/libcalico-go/lib/backend/encap"
	"github.com/projectcalico/calico/libcalico-go/lib/backend/model"
)

// C28: exactly one of Felix and BIRD programs each IP pool's cluster routes, for every supported
// pairing of the two settings - including an absent BGP setting (nil) and an unrecognised one
// (a string with symbolic bytes different from the four known values), which both sides treat
// as the default.

var vSettings = []string{v3.Enabled, v3.Disabled, v3.EnabledIPIPOnly, v3.EnabledNoEncapOnly}

// vComplement: the BGP setting that must accompany a Felix setting (documented on both API fields).
func vComplement(felix string) string {
	switch felix {
	case v3.Enabled:
		return v3.Disabled
	case v3.Disabled:
		return v3.Enabled
	case v3.EnabledIPIPOnly:
		return v3.EnabledNoEncapOnly
	}
	return v3.EnabledIPIPOnly
}

var vModes = []encap.Mode{encap.Never, encap.Always, encap.CrossSubnet, encap.Mode("never")}

func VerifHarness_C28_exactlyone() {
	// Felix side: one of the four values, or absent = the default from the config struct tag
	// (parameter felix.default, extracted from the source on every run).
	fi := verifChoose("felix", 5)
	if fi == 4 {
		fi = verifParam("felix.default", -1)
	}
	fcfg := &felixconfig.Config{ProgramClusterRoutes: vSettings[fi]}

	// BGP side: one of the four values, absent, or an unrecognised string.
	var bgp *v3.BGPConfiguration
	effective := ""
	switch bi := verifChoose("bgp", 7); bi {
	case 4:
		bgp = nil
		effective = vSettings[verifParam("bgp.default", -1)]
	case 5:
		bgp = &v3.BGPConfiguration{}
		effective = vSettings[verifParam("bgp.default", -1)]
	case 6:
		s := verifString("bgp.value", verifChoose("bgp.len", verifParam("MAXLEN", 20)+1))
		for _, k := range vSettings {
			verifAssume(s != k)
		}
		bgp = &v3.BGPConfiguration{}
		bgp.Spec.ProgramClusterRoutes = &s
		effective = vSettings[verifParam("bgp.default", -1)]
	default:
		s := vSettings[bi]
		bgp = &v3.BGPConfiguration{}
		bgp.Spec.ProgramClusterRoutes = &s
		effective = s
	}
	// only supported pairings: the BGP setting (after defaulting) is the complement of Felix's
	verifAssume(effective == vComplement(fcfg.ProgramClusterRoutes))

	pool := &model.IPPool{IPIPMode: vModes[verifChoose("ipip", 4)], VXLANMode: vModes[verifChoose("vxlan", 4)]}
	usesVXLAN := pool.VXLANMode == encap.Always || pool.VXLANMode == encap.CrossSubnet
	usesIPIP := pool.IPIPMode == encap.Always || pool.IPIPMode == encap.CrossSubnet
	verifAssume(!(usesVXLAN && usesIPIP)) // rejected by the API validator

	bird := clusterRoutePolicyFromBGPConfig(bgp, log.NewEntry(log.StandardLogger())).programsPool(pool)
	// Felix: VXLAN pools always; IPIP and unencapsulated pools per its two accessors
	felix := usesVXLAN || (usesIPIP && fcfg.ProgramIPIPClusterRoutes()) || (!usesVXLAN && !usesIPIP && fcfg.ProgramNoEncapClusterRoutes())
	verifAssert("exactly-one-programs-the-pool", felix != bird)
	if usesVXLAN {
		verifAssert("vxlan-always-felix", felix && !bird)
	}
}
