package parser

// C06: selectors keep their meaning through canonical formatting.
// Sym: every byte of the selector text (length forked 0..N), and a label map with a free
// one-byte name, a free one-byte value and a free presence flag per entry.

func verifLabels() map[string]string {
	m := map[string]string{}
	for i := 0; i < 2; i++ {
		if verifBool("label.present") {
			m[verifString("label.name", 1)] = verifString("label.value", 1)
		}
	}
	return m
}

// VerifHarness_C06_roundtrip: for EVERY byte string s up to the bound: Validate agrees with Parse;
// if s parses, its canonical form parses to the same canonical form and the same unique id and
// evaluates identically on arbitrary labels.
func VerifHarness_C06_roundtrip() {
	n := verifParam("N", 4)
	lmin := verifParam("LMIN", 0)
	l := lmin + verifChoose("len", n-lmin+1)
	s := verifString("s", l)
	sel, err := Parse(s)
	verr := Validate(s)
	verifAssert("validate-agrees-with-parse", (err == nil) == (verr == nil))
	if err != nil {
		verifReach("rejected")
		return
	}
	verifReach("accepted")
	canon := sel.String()
	sel2, err2 := Parse(canon)
	verifAssert("canonical-form-parses", err2 == nil)
	if err2 != nil {
		return
	}
	verifAssert("canonical-form-is-a-fixed-point", sel2.String() == canon)
	verifAssert("unique-id-stable", sel2.UniqueID() == sel.UniqueID())
	labels := verifLabels()
	verifAssert("same-meaning", sel.Evaluate(labels) == sel2.Evaluate(labels))
}

// VerifHarness_C06_structured: grammar productions with symbolic identifiers and literals (longer
// texts than the raw-bytes harness can reach): label == 'v', label != "v", has(label), !has(label),
// label in {'a','b'}, label not in {...}, label contains/starts with/ends with 'v', joined by && / ||.
var verifLenientForms bool

func verifStructuredText() string {
	id := func(name string) string {
		s := verifString(name, 2)
		for i := 0; i < len(s); i++ {
			c := s[i]
			verifAssume((c >= 'a' && c <= 'z') || (c >= '0' && c <= '9') || c == '_' || c == '-' || c == '.' || c == '/')
		}
		verifAssume(s[0] >= 'a' && s[0] <= 'z')
		return s
	}
	lit := func(name string, quote byte) string {
		s := verifString(name, 2)
		for i := 0; i < len(s); i++ {
			verifAssume(s[i] != quote)
		}
		return s
	}
	term := func(k int) string {
		switch k {
		case 0:
			return id("l") + " == '" + lit("v", '\'') + "'"
		case 1:
			return id("l") + ` != "` + lit("v", '"') + `"`
		case 2:
			return "has(" + id("l") + ")"
		case 3:
			return "! has(" + id("l") + ")"
		case 4:
			return id("l") + " in {'" + lit("v", '\'') + "', \"" + lit("w", '"') + "\"}"
		case 5:
			return id("l") + " not in {'" + lit("v", '\'') + "'}"
		case 6:
			return id("l") + " contains '" + lit("v", '\'') + "'"
		case 7:
			return id("l") + " starts with '" + lit("v", '\'') + "'"
		case 8:
			return id("l") + " ends with '" + lit("v", '\'') + "'"
		case 10: // forms Parse may or may not tolerate: only Validate's agreement with Parse is asserted
			return id("l") + " in {'" + lit("v", '\'') + "',}"
		case 11:
			return id("l") + " not in {'" + lit("v", '\'') + "' , \"" + lit("w", '"') + "\" , }"
		case 12:
			return id("l") + " in {}"
		case 13:
			return id("l") + " in {,}"
		}
		return "all()"
	}
	nprod := 10
	if verifLenientForms {
		nprod = 14
	}
	a := term(verifChoose("prod", nprod))
	text := a
	switch verifChoose("join", 4) {
	case 1:
		text = a + " && " + term(verifChoose("prod", nprod))
	case 2:
		text = a + " || " + term(verifChoose("prod", nprod))
	case 3:
		text = "!(" + a + ")"
	}
	return text
}

func VerifHarness_C06_structured() {
	text := verifStructuredText()
	sel, err := Parse(text)
	verifAssert("structured/parses", err == nil)
	if err != nil {
		return
	}
	canon := sel.String()
	sel2, err2 := Parse(canon)
	verifAssert("structured/canonical-form-parses", err2 == nil)
	if err2 != nil {
		return
	}
	verifAssert("structured/fixed-point", sel2.String() == canon)
	labels := verifLabels()
	verifAssert("structured/same-meaning", sel.Evaluate(labels) == sel2.Evaluate(labels))
}

// VerifHarness_C06_validate: Validate accepts exactly what Parse accepts, on well-formed texts
// followed by stray tokens (and on the well-formed texts themselves).
func VerifHarness_C06_validate() {
	tails := []string{"", " )", ")", " }", " has(zz)", " &&", " ||", " 'v'", " zz", " !", ",", " ==", " all()", "("}
	verifLenientForms = true
	text := verifStructuredText() + tails[verifChoose("tail", len(tails))]
	_, err := Parse(text)
	verr := Validate(text)
	verifAssert("validate/agrees-with-parse", (err == nil) == (verr == nil))
}
