package storage

import (
	"time"

	"github.com/projectcalico/calico/goldmane/pkg/types"
	"github.com/projectcalico/calico/goldmane/proto"
)

// C32 (part 1): every accepted flow timestamp lands in exactly one bucket.
// Sym: creation time, the flow timestamp.  Shape: ring size N, interval, number of rollovers.

func verifRing() *BucketRing {
	n := verifParam("N", 4)
	interval := verifParam("INTERVAL", 15)
	now := verifI64("now")
	verifAssume(now > 0 && now < 1<<40)
	ring := NewBucketRing(n, interval, now, WithNowFunc(func() time.Time { return time.Unix(0, 0) }))
	r := verifChoose("rollovers", verifParam("R", 3)+1)
	for i := 0; i < r; i++ {
		ring.Rollover(nil)
	}
	return ring
}

// VerifHarness_C32_findbucket: findBucket accepts exactly the timestamps inside the retained
// history and returns the one bucket whose [Start,End) contains the timestamp.
func VerifHarness_C32_findbucket() {
	ring := verifRing()
	n := len(ring.buckets)
	interval := int64(ring.interval)
	// ring invariant: walking back from the head, buckets are contiguous, interval wide
	for i := 0; i < n; i++ {
		b := ring.buckets[ring.indexSubtract(ring.headIndex, i)]
		verifAssert("ring/interval-wide", b.EndTime-b.StartTime == interval)
		if i+1 < n {
			prev := ring.buckets[ring.indexSubtract(ring.headIndex, i+1)]
			verifAssert("ring/contiguous", prev.EndTime == b.StartTime)
		}
	}
	verifAssert("ring/history-span", ring.EndOfHistory()-ring.BeginningOfHistory() == interval*int64(n))

	t := verifI64("t")
	idx, b := ring.findBucket(t)
	inHist := t >= ring.BeginningOfHistory() && t < ring.EndOfHistory()
	verifAssert("accepted-iff-in-history", (b != nil) == inHist)
	cnt := 0
	for _, x := range ring.buckets {
		if t >= x.StartTime && t < x.EndTime {
			cnt++
		}
	}
	if inHist {
		verifAssert("exactly-one-bucket", cnt == 1)
		verifAssert("index-in-range", idx >= 0 && idx < n)
		verifAssert("bucket-contains-t", b != nil && t >= b.StartTime && t < b.EndTime && ring.buckets[idx] == b)
	} else {
		verifAssert("no-bucket-outside-history", cnt == 0 && idx == -1)
	}
}

// VerifHarness_C32_conserve: flows with free timestamps and packet counts are added, then the
// ring rolls over a symbolic number of times.  Afterwards every retained record holds exactly
// the counts of the accepted flows whose window is still inside the history, and nothing older
// than the beginning of history is kept (an expired flow is forgotten).
func VerifHarness_C32_conserve() {
	ring := verifRing()
	key := types.NewFlowKey(
		&types.FlowKeySource{SourceName: "a", SourceNamespace: "ns"},
		&types.FlowKeyDestination{DestName: "b", DestNamespace: "ns", DestPort: 80},
		&types.FlowKeyMeta{Proto: "tcp"},
		&proto.PolicyTrace{})
	nflows := verifParam("F", 2)
	type acc struct {
		bucketStart int64
		pkts        int64
	}
	var accepted []acc
	for i := 0; i < nflows; i++ {
		t := verifI64("flow.t")
		pk := int64(verifU16("flow.pkts"))
		f := &types.Flow{Key: key, StartTime: t, EndTime: t, PacketsIn: pk}
		if t >= ring.BeginningOfHistory() && t < ring.EndOfHistory() {
			var bs int64
			for _, b := range ring.buckets {
				if t >= b.StartTime && t < b.EndTime {
					bs = b.StartTime
				}
			}
			accepted = append(accepted, acc{bs, pk})
		}
		ring.AddFlow(f)
	}
	r2 := verifChoose("rollovers-after", len(ring.buckets)+2)
	for i := 0; i < r2; i++ {
		ring.Rollover(nil)
	}
	boh := ring.BeginningOfHistory()
	var want int64
	for _, a := range accepted {
		if a.bucketStart >= boh {
			want += a.pkts
		}
	}
	d, ok := ring.diachronics[*key]
	if !ok {
		verifAssert("conserve/absent-only-if-nothing-retained", want == 0 || len(accepted) == 0)
		// (a retained flow with zero packets is still a record; want==0 with retained flows is handled below)
		for _, a := range accepted {
			verifAssert("conserve/forgotten-only-when-expired", a.bucketStart < boh)
		}
		return
	}
	verifAssert("conserve/record-not-empty", !d.Empty())
	var got int64
	for _, w := range d.Windows {
		verifAssert("conserve/no-window-older-than-history", w.start >= boh)
		got += w.PacketsIn
	}
	verifAssert("conserve/packet-count", got == want)
	retained := false
	for _, a := range accepted {
		if a.bucketStart >= boh {
			retained = true
		}
	}
	verifAssert("conserve/record-kept-only-if-something-retained", retained)
}
