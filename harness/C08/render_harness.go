package rules

import (
	v3 "github.com/projectcalico/api/pkg/apis/projectcalico/v3"

	"github.com/projectcalico/calico/felix/ipsets"
	"github.com/projectcalico/calico/felix/proto"
	"github.com/projectcalico/calico/felix/types"
)

// C08: rendered iptables rules match exactly what the policy rule says.
// Sym: the whole packet (protocol, addresses, ports, ICMP type/code, incoming mark) and the
// packet's membership in every IP set.  Shape: which match fields the rule has and how many
// entries each list has (forked by the engine from the shape index); the constants in the rule
// are fixed boundary values (nested CIDRs, adjacent port ranges, 16 ranges to force the 15-slot
// split).

func verifRenderer() *DefaultRuleRenderer {
	cfg := Config{
		IPSetConfigV4: ipsets.NewIPVersionConfig(ipsets.IPFamilyV4, "cali", nil, nil),
		IPSetConfigV6: ipsets.NewIPVersionConfig(ipsets.IPFamilyV6, "cali", nil, nil),
		MarkAccept:    0x80, MarkPass: 0x100, MarkScratch0: 0x200, MarkScratch1: 0x400, MarkDrop: 0x800,
		MarkEndpoint: 0xff000,
	}
	return NewRenderer(cfg, false).(*DefaultRuleRenderer)
}

var (
	verifSrcNets    = []string{"10.0.0.0/8", "10.1.0.0/16", "192.168.7.0/24"}
	verifDstNets    = []string{"172.16.0.0/12", "172.16.5.0/24", "8.8.8.8/32"}
	verifNotSrcNets = []string{"10.1.2.0/24", "10.255.0.0/16", "0.0.0.0/0"} // the last: a negated catch-all makes the rule unsatisfiable
	verifNotDstNets = []string{"172.16.5.128/25", "172.20.0.0/16", "0.0.0.0/0"}
)

func verifPorts(n int, base uint32) []*proto.PortRange {
	var out []*proto.PortRange
	for i := 0; i < n; i++ {
		f := base + uint32(i)*10
		l := f
		if i%2 == 1 {
			l = f + 5
		}
		out = append(out, &proto.PortRange{First: int32(f), Last: int32(l)})
	}
	return out
}

// verifShapeRule decodes a shape number into a rule (mixed-radix digits).
func verifShapeRule(shape int) (*proto.Rule, int) {
	digit := func(radix int) int {
		d := shape % radix
		shape /= radix
		return d
	}
	r := &proto.Rule{}
	switch digit(4) {
	case 0:
		r.Action = "allow"
	case 1:
		r.Action = "deny"
	case 2:
		r.Action = "next-tier"
	case 3:
		r.Action = "log"
	}
	r.Protocol = &proto.Protocol{NumberOrName: &proto.Protocol_Name{Name: "tcp"}}
	r.SrcNet = verifSrcNets[:digit(4)]
	r.DstNet = verifDstNets[:digit(3)]
	r.NotSrcNet = verifNotSrcNets[:digit(4)]
	r.NotDstNet = verifNotDstNets[:digit(4)]
	switch digit(4) {
	case 1:
		r.DstPorts = verifPorts(1, 80)
	case 2:
		r.DstPorts = verifPorts(2, 80)
	case 3:
		r.DstPorts = verifPorts(16, 1000) // more than one multiport fragment
	}
	if digit(2) == 1 {
		r.DstNamedPortIpSetIds = []string{"np-dst"}
	}
	switch digit(3) {
	case 1:
		r.SrcPorts = verifPorts(1, 30000)
	case 2:
		r.SrcPorts = verifPorts(2, 30000)
		r.SrcNamedPortIpSetIds = []string{"np-src"}
	}
	if digit(2) == 1 {
		r.NotDstPorts = verifPorts(2, 443)
	}
	if digit(2) == 1 {
		r.SrcIpSetIds = []string{"set-a"}
		r.NotDstIpSetIds = []string{"set-b"}
	}
	return r, shape
}

const verifNumShapes = 4 * 4 * 3 * 4 * 4 * 4 * 2 * 3 * 2 * 2

// verifBlocks counts the positive match blocks the renderer will need (documented rule: a block
// per over-full port list / per multi-CIDR list).
func verifPositiveBlocks(r *proto.Rule) int {
	n := 0
	if len(SplitPortList(r.SrcPorts))+len(r.SrcNamedPortIpSetIds) > 1 {
		n++
	}
	if len(SplitPortList(r.DstPorts))+len(r.DstNamedPortIpSetIds) > 1 {
		n++
	}
	if len(r.SrcNet) > 1 {
		n++
	}
	if len(r.DstNet) > 1 {
		n++
	}
	return n
}

// verifKnownStaleScratchBit recognises the packets affected by the known defect (DESIGN §8.4):
// the scratch bit a non-first positive match block sets is never cleared, so when such a block
// matched, a LATER positive block that does not match goes unnoticed.  Blocks in rendering
// order: source ports, destination ports, source nets, destination nets.
func verifKnownStaleScratchBit(r *proto.Rule, p *vPkt, sets *vSets, nameFor func(string) string) bool {
	type blk struct{ match bool }
	var blocks []blk
	if len(SplitPortList(r.SrcPorts))+len(r.SrcNamedPortIpSetIds) > 1 {
		m := vPortProto(p.proto) && vInRanges(p.sport, r.SrcPorts)
		for _, id := range r.SrcNamedPortIpSetIds {
			if sets.in(nameFor(id), "src,src") {
				m = true
			}
		}
		blocks = append(blocks, blk{m})
	}
	if len(SplitPortList(r.DstPorts))+len(r.DstNamedPortIpSetIds) > 1 {
		m := vPortProto(p.proto) && vInRanges(p.dport, r.DstPorts)
		for _, id := range r.DstNamedPortIpSetIds {
			if sets.in(nameFor(id), "dst,dst") {
				m = true
			}
		}
		blocks = append(blocks, blk{m})
	}
	if len(r.SrcNet) > 1 {
		blocks = append(blocks, blk{vAnyCIDR(p.src, r.SrcNet)})
	}
	if len(r.DstNet) > 1 {
		blocks = append(blocks, blk{vAnyCIDR(p.dst, r.DstNet)})
	}
	known := false
	for i := 1; i < len(blocks); i++ {
		for j := i + 1; j < len(blocks); j++ {
			if blocks[i].match && !blocks[j].match {
				known = true
			}
		}
	}
	return known
}

func verifCheckRule(rr *DefaultRuleRenderer, r *proto.Rule) {
	p := vNewPkt()
	sets := &vSets{m: map[string]bool{}}
	// the policy bits are clear when a policy chain is entered
	p.mark &^= 0x80 | 0x100 | 0x800
	before := p.mark
	rules := rr.ProtoRuleToIptablesRules(r, 4, RuleOwnerTypePolicy, RuleDirIngress, 0, &types.PolicyID{Name: "p", Kind: v3.KindGlobalNetworkPolicy}, "default", false)
	want := vRefMatch(r, p, sets, rr.IPSetConfigV4.NameForMainIPSet)
	known := verifKnownStaleScratchBit(r, p, sets, rr.IPSetConfigV4.NameForMainIPSet)
	v := vEvalRules(rules, p, sets, nil, 0)
	acc, pass, drop := p.mark&0x80 != 0, p.mark&0x100 != 0, p.mark&0x800 != 0
	// counterexamples in which a non-first positive block matched and a later one did not are the
	// known finding (site known-stale-scratch-bit); anything else is reported under its own site
	check := func(site string, cond bool) {
		if known {
			verifAssert("known-stale-scratch-bit", cond)
		} else {
			verifAssert(site, cond)
		}
	}
	switch r.Action {
	case "allow":
		check("allow/verdict-iff-match", (v == vReturn) == want)
		check("allow/mark-iff-match", acc == want && !pass && !drop)
	case "next-tier":
		check("pass/verdict-iff-match", (v == vReturn) == want)
		check("pass/mark-iff-match", pass == want && !acc && !drop)
	case "deny":
		check("deny/verdict-iff-match", (v == vDrop) == want)
		check("deny/mark-iff-match", drop == want && !acc && !pass)
	case "log":
		verifAssert("log/never-decides", v == vCont && !acc && !pass && !drop)
	}
	// only the policy bits and the two scratch bits may ever change
	verifAssert("other-mark-bits-untouched", (p.mark^before)&^uint32(0x80|0x100|0x800|0x200|0x400) == 0)
}

// VerifHarness_C08_shapes: a window [FROM, FROM+COUNT) of the shape space, restricted to shapes
// with at most MAXBLOCKS positive match blocks.
func VerifHarness_C08_shapes() {
	from := verifParam("FROM", 0)
	count := verifParam("COUNT", 64)
	stride := verifParam("STRIDE", 1)
	maxBlocks := verifParam("MAXBLOCKS", 2)
	minBlocks := verifParam("MINBLOCKS", 0)
	k := verifChoose("shape", count)
	shape := (from + k*stride) % verifNumShapes
	r, _ := verifShapeRule(shape)
	nb := verifPositiveBlocks(r)
	if nb > maxBlocks || nb < minBlocks {
		verifReach("skipped-shape")
		return
	}
	verifCheckRule(verifRenderer(), r)
}
