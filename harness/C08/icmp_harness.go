package rules

import (
	"strings"

	v3 "github.com/projectcalico/api/pkg/apis/projectcalico/v3"

	"github.com/projectcalico/calico/felix/ipsets"
	"github.com/projectcalico/calico/felix/proto"
	"github.com/projectcalico/calico/felix/types"
)

// C08 (ICMP): a rule with an ICMP type / type+code match and/or a negated one, rendered by the
// iptables AND the nftables renderer, takes its action exactly when protocol, type and code of a
// free packet satisfy the rule: match && !(negated match).

// vNftICMPMatch interprets the nftables match text of such a rule: "meta l4proto P" and
// "icmp type [!=] T [code [!=] C]" clauses, every comparison a separate condition (nft semantics).
func vNftICMPMatch(text string, p *vPkt) bool {
	w := strings.Fields(text)
	ok := true
	num := func(s string) uint8 { return uint8(vParseU32(s)) }
	cmp := func(j int, field uint8) (bool, int) {
		if w[j] == "!=" {
			return field != num(w[j+1]), j + 2
		}
		return field == num(w[j]), j + 1
	}
	for j := 0; j < len(w); {
		switch {
		case j+2 < len(w) && w[j] == "meta" && w[j+1] == "l4proto":
			pn, known := vProtoNum(w[j+2])
			if !known {
				verifFail("oracle/unknown-protocol")
			}
			ok = ok && p.proto == pn
			j += 3
		case j+2 < len(w) && w[j] == "icmp" && w[j+1] == "type":
			var c bool
			c, j = cmp(j+2, p.icmpType)
			ok = ok && c
			if j < len(w) && w[j] == "code" {
				c, j = cmp(j+1, p.icmpCode)
				ok = ok && c
			}
		default:
			verifFail("oracle/unknown-nft-fragment")
		}
	}
	return ok
}

func VerifHarness_C08_icmp() {
	nft := verifChoose("renderer", 2) == 1
	pos := verifChoose("icmp", 3)    // 0 none, 1 type 8, 2 type 8 code 0
	neg := verifChoose("not-icmp", 3) // 0 none, 1 not type 3, 2 not type 3 code 4
	cfg := Config{
		IPSetConfigV4: ipsets.NewIPVersionConfig(ipsets.IPFamilyV4, "cali", nil, nil),
		IPSetConfigV6: ipsets.NewIPVersionConfig(ipsets.IPFamilyV6, "cali", nil, nil),
		MarkAccept:    0x80, MarkPass: 0x100, MarkScratch0: 0x200, MarkScratch1: 0x400, MarkDrop: 0x800, MarkEndpoint: 0xff000,
	}
	rr := NewRenderer(cfg, nft).(*DefaultRuleRenderer)
	r := &proto.Rule{Action: "allow", Protocol: &proto.Protocol{NumberOrName: &proto.Protocol_Name{Name: "icmp"}}}
	switch pos {
	case 1:
		r.Icmp = &proto.Rule_IcmpType{IcmpType: 8}
	case 2:
		r.Icmp = &proto.Rule_IcmpTypeCode{IcmpTypeCode: &proto.IcmpTypeAndCode{Type: 8, Code: 0}}
	}
	switch neg {
	case 1:
		r.NotIcmp = &proto.Rule_NotIcmpType{NotIcmpType: 3}
	case 2:
		r.NotIcmp = &proto.Rule_NotIcmpTypeCode{NotIcmpTypeCode: &proto.IcmpTypeAndCode{Type: 3, Code: 4}}
	}
	rules := rr.ProtoRuleToIptablesRules(r, 4, RuleOwnerTypePolicy, RuleDirIngress, 0, &types.PolicyID{Name: "p", Kind: v3.KindGlobalNetworkPolicy}, "default", false)
	verifAssert("icmp/rendered-as-mark-then-return", len(rules) == 2)
	p := vNewPkt()
	want := p.proto == 1
	switch pos {
	case 1:
		want = want && p.icmpType == 8
	case 2:
		want = want && p.icmpType == 8 && p.icmpCode == 0
	}
	switch neg {
	case 1:
		want = want && p.icmpType != 3
	case 2:
		want = want && !(p.icmpType == 3 && p.icmpCode == 4)
	}
	var got bool
	if nft {
		got = vNftICMPMatch(rules[0].Match.Render(), p)
	} else {
		got = vMatch(rules[0].Match.Render(), p, &vSets{m: map[string]bool{}})
	}
	// known finding: the nftables negated type+code match is rendered as two separate negations, so
	// packets with the type but not the code (or the code but not the type) escape the rule
	if nft && neg == 2 && (p.icmpType == 3) != (p.icmpCode == 4) {
		verifAssert("known-nft-negated-icmp-type-and-code", got == want)
		return
	}
	verifAssert("icmp/action-iff-match", got == want)
}

// VerifHarness_C08_catchall: positive CIDR lists that contain the catch-all CIDR, alone or next to
// narrower CIDRs (a positive list is a disjunction, so the catch-all makes it match everything),
// on the source side, the destination side or both; negated lists alongside.
func VerifHarness_C08_catchall() {
	lists := [][]string{nil, {"0.0.0.0/0"}, {"10.0.0.0/8", "0.0.0.0/0"}, {"0.0.0.0/0", "10.1.0.0/16", "192.168.7.0/24"}, {"10.0.0.0/8"}}
	r := &proto.Rule{Action: []string{"allow", "deny"}[verifChoose("action", 2)], Protocol: &proto.Protocol{NumberOrName: &proto.Protocol_Name{Name: "tcp"}}}
	r.SrcNet = lists[verifChoose("src", len(lists))]
	r.DstNet = lists[verifChoose("dst", len(lists))]
	if verifChoose("not-src", 2) == 1 {
		r.NotSrcNet = []string{"10.1.2.0/24"}
	}
	verifCheckRule(verifRenderer(), r)
}
