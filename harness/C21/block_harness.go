package ipam

import (
	"fmt"
	"time"

	v1 "k8s.io/apimachinery/pkg/apis/meta/v1"

	"github.com/projectcalico/calico/libcalico-go/lib/backend/model"
	cnet "github.com/projectcalico/calico/libcalico-go/lib/net"
)

// IPAM block-level harnesses (C19 step invariant, C21 release safety / cooldown).
// Pre-state: an ARBITRARY valid /30 block: per ordinal free / allocated to h1 / allocated to h2 /
// cooling down (state forked), free list in ascending or descending order, per-ordinal and block
// sequence numbers free uint64.  One operation with symbolic arguments, invariant asserted after.

const verifCooldown = 30 // seconds, used by the harnesses that enable cooldown

var verifHandles = []string{"h1", "h2"}

type verifPre struct {
	b       allocationBlock
	state   [4]int // 0 free, 1 h1, 2 h2, 3 cooling (old), 4 cooling (fresh)
	seq     [4]uint64
	unalloc []int
}

func verifAddr(o int) string { return fmt.Sprintf("10.0.0.%d", o) }

func verifMakeBlock(allowCooling bool) *verifPre {
	_, cidr, _ := cnet.ParseCIDR("10.0.0.0/30")
	p := &verifPre{b: newBlock(*cidr, nil)}
	b := p.b
	aff := "host:node1"
	b.Affinity = &aff
	b.SequenceNumber = verifU64("blockseq")
	nstates := 3
	if allowCooling {
		nstates = 5
	}
	h1, h2 := "h1", "h2"
	old := v1.NewTime(time.Now().Add(-time.Duration(verifCooldown+10) * time.Second))
	fresh := v1.NewTime(time.Now().Add(-time.Duration(verifCooldown-10) * time.Second))
	b.Attributes = []model.AllocationAttribute{{HandleID: &h1}, {HandleID: &h2}, {ReleasedAt: &old}, {ReleasedAt: &fresh}}
	b.Unallocated = nil
	for o := 0; o < 4; o++ {
		s := verifChoose("state", nstates)
		p.state[o] = s
		if s == 0 {
			b.Unallocated = append(b.Unallocated, o)
			continue
		}
		idx := s - 1
		b.Allocations[o] = &idx
		p.seq[o] = verifU64("seq")
		b.SequenceNumberForAllocation[fmt.Sprintf("%d", o)] = p.seq[o]
	}
	// the free list is in release order, i.e. an arbitrary permutation of the free ordinals
	// (Lehmer code: one fork per position)
	for i := 0; i+1 < len(b.Unallocated); i++ {
		j := i + verifChoose("free-list-perm", len(b.Unallocated)-i)
		b.Unallocated[i], b.Unallocated[j] = b.Unallocated[j], b.Unallocated[i]
	}
	p.unalloc = append([]int(nil), b.Unallocated...)
	return p
}

// verifInvariant: every ordinal is either in Unallocated exactly once or allocated, never both;
// attribute indexes are in range.
func verifInvariant(site string, b allocationBlock) {
	for o := 0; o < 4; o++ {
		n := 0
		for _, u := range b.Unallocated {
			if u == o {
				n++
			}
		}
		if b.Allocations[o] == nil {
			verifAssert(site+"/free-listed-once", n == 1)
		} else {
			verifAssert(site+"/allocated-not-listed", n == 0)
			verifAssert(site+"/attr-in-range", *b.Allocations[o] >= 0 && *b.Allocations[o] < len(b.Attributes))
		}
	}
	verifAssert(site+"/free-list-len", len(b.Unallocated) <= 4)
}

func verifHandleOf(b allocationBlock, o int) string {
	if b.Allocations[o] == nil {
		return ""
	}
	a := b.Attributes[*b.Allocations[o]]
	if a.HandleID == nil {
		return ""
	}
	return *a.HandleID
}

func verifCooling(b allocationBlock, o int) bool {
	return b.Allocations[o] != nil && b.Attributes[*b.Allocations[o]].ReleasedAt != nil
}

// VerifHarness_C19_autoassign: autoAssign hands out distinct, previously free addresses, in
// free-list order (longest free first), records them against the caller's handle and keeps the
// block invariant.
func VerifHarness_C19_autoassign() {
	p := verifMakeBlock(false)
	b := p.b
	num := verifChoose("num", 4)
	h := verifHandles[verifChoose("handle", 2)]
	ips, err := b.autoAssign(num, &h, AffinityConfig{AffinityType: AffinityTypeHost, Host: "node1"}, nil, true, nilAddrFilter{})
	verifAssert("assign/no-error", err == nil)
	want := num
	if len(p.unalloc) < want {
		want = len(p.unalloc)
	}
	verifAssert("assign/count", len(ips) == want)
	for i := range ips {
		o, e := b.IPToOrdinal(cnet.IP{IP: ips[i].IP})
		verifAssert("assign/in-block", e == nil)
		verifAssert("assign/was-free-in-order", o == p.unalloc[i])
		verifAssert("assign/now-owned-by-caller", verifHandleOf(b, o) == h)
		verifAssert("assign/seqno-recorded", b.GetSequenceNumberForOrdinal(o) == b.SequenceNumber)
	}
	for o := 0; o < 4; o++ {
		if p.state[o] != 0 {
			verifAssert("assign/others-untouched", verifHandleOf(b, o) == verifHandles[p.state[o]-1])
		}
	}
	verifInvariant("assign", b)
}

// VerifHarness_C19_assign: an explicit assignment of one address (AssignIP) from an arbitrary block
// (free list in any order): a free address becomes the caller's and leaves the free list, an
// allocated one is refused and nothing else changes; a following autoAssign of every remaining
// address never hands the explicitly assigned one to someone else.
func VerifHarness_C19_assign() {
	p := verifMakeBlock(false)
	b := p.b
	o := verifChoose("ordinal", 4)
	h := verifHandles[verifChoose("handle", 2)]
	_, ipn, _ := cnet.ParseCIDR(verifAddr(o) + "/32")
	err := b.assign(true, cnet.IP{IP: ipn.IP}, &h, nil, AffinityConfig{AffinityType: AffinityTypeHost, Host: "node1"})
	if p.state[o] == 0 {
		verifAssert("explicit/free-address-accepted", err == nil)
		verifAssert("explicit/now-owned-by-caller", verifHandleOf(b, o) == h)
		// the other free addresses keep their order (longest-free first is the free-list order)
		k := 0
		for _, u := range p.unalloc {
			if u == o {
				continue
			}
			verifAssert("explicit/free-list-order-kept", k < len(b.Unallocated) && b.Unallocated[k] == u)
			k++
		}
		verifAssert("explicit/free-list-order-kept", k == len(b.Unallocated))
	} else {
		verifAssert("explicit/allocated-address-refused", err != nil)
		verifAssert("explicit/owner-unchanged", verifHandleOf(b, o) == verifHandles[p.state[o]-1])
	}
	for q := 0; q < 4; q++ {
		if q != o && p.state[q] != 0 {
			verifAssert("explicit/others-untouched", verifHandleOf(b, q) == verifHandles[p.state[q]-1])
		}
	}
	verifInvariant("explicit", b)
	other := verifHandles[1-verifChoose("handle2", 2)]
	more, _ := b.autoAssign(4, &other, AffinityConfig{AffinityType: AffinityTypeHost, Host: "node1"}, nil, true, nilAddrFilter{})
	for i := range more {
		o2, _ := b.IPToOrdinal(cnet.IP{IP: more[i].IP})
		verifAssert("explicit/then-auto-assign-skips-it", o2 != o)
	}
	verifInvariant("explicit-then-auto", b)
}

// VerifHarness_C21_release: one release request (symbolic address, handle, sequence number)
// against an arbitrary block with cooldown enabled.
func VerifHarness_C21_release() {
	p := verifMakeBlock(true)
	b := p.b
	o := verifChoose("ordinal", 4)
	opts := ReleaseOptions{Address: verifAddr(o)}
	useHandle := verifChoose("usehandle", 3) // 0 none, 1 h1, 2 h2
	if useHandle > 0 {
		opts.Handle = verifHandles[useHandle-1]
	}
	var seq uint64
	if verifBool("useseq") {
		seq = verifU64("reqseq")
		opts.SequenceNumber = &seq
	}
	cfg := &IPAMConfig{IPCooldownSeconds: verifCooldown}
	unalloc, counts, err := b.release(cfg, []ReleaseOptions{opts})
	st := p.state[o]
	staleSeq := opts.SequenceNumber != nil && seq != p.seq[o] && st != 0
	if st == 0 {
		staleSeq = opts.SequenceNumber != nil && seq != 0
	}
	allocated := st == 1 || st == 2
	wrongHandle := allocated && useHandle > 0 && useHandle != st
	switch {
	case staleSeq:
		verifAssert("release/stale-seq-rejected", err != nil)
	case !allocated:
		// free or already released (cooling): harmless no-op, reported as unallocated
		verifAssert("release/not-allocated-is-noop", err == nil && len(unalloc) == 1 && len(counts) == 0)
	case wrongHandle:
		verifAssert("release/wrong-handle-rejected", err != nil)
	default:
		verifAssert("release/ok", err == nil && len(unalloc) == 0)
		verifAssert("release/counted-against-handle", counts[verifHandles[st-1]] == 1)
		verifAssert("release/in-cooldown-not-reusable", verifCooling(b, o))
		for _, u := range b.Unallocated {
			verifAssert("release/not-on-free-list-before-cooldown", u != o)
		}
	}
	if staleSeq || wrongHandle || !allocated {
		// the block must be untouched
		for x := 0; x < 4; x++ {
			switch p.state[x] {
			case 0:
				verifAssert("release/unchanged-free", b.Allocations[x] == nil)
			case 1, 2:
				verifAssert("release/unchanged-owner", verifHandleOf(b, x) == verifHandles[p.state[x]-1] && !verifCooling(b, x))
				verifAssert("release/unchanged-seq", b.GetSequenceNumberForOrdinal(x) == p.seq[x])
			default:
				verifAssert("release/unchanged-cooling", verifCooling(b, x))
				verifAssert("release/unchanged-cooling-seq", b.GetSequenceNumberForOrdinal(x) == p.seq[x])
			}
		}
		verifAssert("release/unchanged-free-list", len(b.Unallocated) == len(p.unalloc))
	} else {
		// a successful release garbage-collects: ordinals whose cooldown has passed go to the END
		// of the free list (longest-free first), fresh ones stay in cooldown
		for x := 0; x < 4; x++ {
			if x == o {
				continue
			}
			switch p.state[x] {
			case 3:
				verifAssert("release/gc-frees-expired", b.Allocations[x] == nil)
			case 4:
				verifAssert("release/gc-keeps-fresh", verifCooling(b, x))
			case 1, 2:
				verifAssert("release/others-keep-owner", verifHandleOf(b, x) == verifHandles[p.state[x]-1])
			}
		}
		for i, u := range p.unalloc {
			verifAssert("release/free-list-prefix-preserved", i < len(b.Unallocated) && b.Unallocated[i] == u)
		}
	}
	verifInvariant("release", b)
	// a block that still records an allocated or cooling-down address is not empty (an empty
	// block may be deleted, which would forget the cooldown)
	inUse := false
	for x := 0; x < 4; x++ {
		if b.Allocations[x] != nil {
			inUse = true
		}
	}
	verifAssert("release/block-with-recorded-addresses-is-not-empty", b.empty() == !inUse)
}

// VerifHarness_C21_byhandle: releaseByHandle frees exactly that handle's addresses.
func VerifHarness_C21_byhandle() {
	p := verifMakeBlock(true)
	b := p.b
	hi := verifChoose("handle", 2)
	cfg := &IPAMConfig{IPCooldownSeconds: verifCooldown}
	n := b.releaseByHandle(cfg, ReleaseOptions{Handle: verifHandles[hi]})
	want := 0
	for x := 0; x < 4; x++ {
		if p.state[x] == hi+1 {
			want++
			verifAssert("byhandle/released", verifCooling(b, x))
		} else if p.state[x] == 1 || p.state[x] == 2 {
			verifAssert("byhandle/other-handle-kept", verifHandleOf(b, x) == verifHandles[p.state[x]-1] && !verifCooling(b, x))
		}
	}
	verifAssert("byhandle/count", n == want)
	verifInvariant("byhandle", b)
}

// VerifHarness_C21_sequence: assign, release, release again, then allocate: the second release is
// a no-op and the address is not handed out again inside the cooldown window.
func VerifHarness_C21_sequence() {
	p := verifMakeBlock(false)
	b := p.b
	h := "h1"
	cfg := &IPAMConfig{IPCooldownSeconds: verifCooldown}
	ips, err := b.autoAssign(1, &h, AffinityConfig{AffinityType: AffinityTypeHost, Host: "node1"}, nil, true, nilAddrFilter{})
	if err != nil || len(ips) == 0 {
		return
	}
	o, _ := b.IPToOrdinal(cnet.IP{IP: ips[0].IP})
	seq := b.GetSequenceNumberForOrdinal(o)
	_, _, err = b.release(cfg, []ReleaseOptions{{Address: verifAddr(o), Handle: "h1", SequenceNumber: &seq}})
	verifAssert("seq/first-release-ok", err == nil)
	seq2 := b.GetSequenceNumberForOrdinal(o)
	un, counts, err2 := b.release(cfg, []ReleaseOptions{{Address: verifAddr(o)}})
	verifAssert("seq/second-release-is-noop", err2 == nil && len(un) == 1 && len(counts) == 0)
	verifAssert("seq/second-release-keeps-seqno", b.GetSequenceNumberForOrdinal(o) == seq2)
	more, _ := b.autoAssign(4, &h, AffinityConfig{AffinityType: AffinityTypeHost, Host: "node1"}, nil, true, nilAddrFilter{})
	for i := range more {
		o2, _ := b.IPToOrdinal(cnet.IP{IP: more[i].IP})
		verifAssert("seq/not-reused-in-cooldown", o2 != o)
	}
	verifInvariant("seq", b)
}
