package node

import "time"

// C23 (part 1): leak confirmation needs two observations at least a grace period apart with no
// "valid" observation in between; grace <= 0 never confirms; a handle is a confirmed leak only if
// every allocation sharing it is.  Sym: the grace period, the age of the first observation
// (relative to the grace period), flags of the sibling allocations.

func verifAlloc(ip, handle string) *allocation {
	return &allocation{ip: ip, handle: handle, block: "10.0.0.0/26", knode: "n1"}
}

// VerifHarness_C23_markleak: one markLeak call from an arbitrary allocation state.
func VerifHarness_C23_markleak() {
	graceSec := int64(verifU16("grace.seconds")) - 100 // includes zero and negative (GC disabled)
	grace := time.Duration(graceSec) * time.Second
	a := verifAlloc("10.0.0.1", "h")
	state := verifChoose("state", 4) // 0 fresh, 1 candidate younger than grace, 2 candidate older than grace, 3 confirmed
	switch state {
	case 1:
		verifAssume(graceSec > 10)
		t := time.Now().Add(-(grace - 5*time.Second))
		a.leakedAt = &t
	case 2:
		verifAssume(graceSec >= 0)
		t := time.Now().Add(-(grace + 5*time.Second))
		a.leakedAt = &t
	case 3:
		t := time.Now().Add(-time.Hour)
		a.leakedAt = &t
		a.confirmedLeak = true
	}
	a.markLeak(grace)
	verifAssert("leak/candidate-recorded", a.leakedAt != nil)
	switch state {
	case 0:
		if graceSec >= 5 || graceSec <= 0 {
			verifAssert("leak/first-observation-never-confirms", !a.isConfirmedLeak())
		}
	case 1:
		verifAssert("leak/young-candidate-not-confirmed", !a.isConfirmedLeak() && a.isCandidateLeak())
	case 2:
		verifAssert("leak/old-candidate-confirmed-iff-gc-enabled", a.isConfirmedLeak() == (graceSec > 0))
	case 3:
		verifAssert("leak/confirmed-stays", a.isConfirmedLeak())
	}
	if graceSec <= 0 && state != 3 {
		verifAssert("leak/gc-disabled-never-confirms", !a.isConfirmedLeak())
	}
	// a valid observation resets everything: confirmation needs a fresh first observation
	a.markValid()
	verifAssert("valid/resets", !a.isConfirmedLeak() && !a.isCandidateLeak() && a.leakedAt == nil)
	a.markLeak(grace)
	if graceSec >= 5 || graceSec <= 0 {
		verifAssert("valid/then-leak-starts-over", !a.isConfirmedLeak())
	}
}

// VerifHarness_C23_handle: a handle is released as a whole or not at all.
func VerifHarness_C23_handle() {
	t := newHandleTracker()
	as := []*allocation{verifAlloc("10.0.0.1", "h"), verifAlloc("10.0.0.2", "h"), verifAlloc("10.0.0.3", "other")}
	all := true
	for i, a := range as {
		if verifBool("confirmed") {
			a.confirmedLeak = true
		} else if i < 2 {
			all = false
		}
		t.setAllocation(a)
	}
	verifAssert("handle/confirmed-iff-all-sharing-allocations-are", t.isConfirmedLeak("h") == all)
	t.removeAllocation(as[1])
	verifAssert("handle/after-remove", t.isConfirmedLeak("h") == as[0].confirmedLeak)
}

// VerifHarness_C23_block: an empty block is released only after it has been seen empty for longer
// than the grace period with no in-use observation in between.
func VerifHarness_C23_block() {
	graceSec := int64(verifU16("grace.seconds")) - 100
	grace := time.Duration(graceSec) * time.Second
	var gp *time.Duration
	if verifBool("grace.set") {
		gp = &grace
	}
	t := newBlockReleaseTracker(gp)
	state := verifChoose("state", 3) // 0 never seen, 1 seen empty recently, 2 seen empty long ago
	switch state {
	case 1:
		verifAssume(graceSec > 10)
		t.blocks["b"] = time.Now().Add(-(grace - 5*time.Second))
	case 2:
		verifAssume(graceSec >= 0)
		t.blocks["b"] = time.Now().Add(-(grace + 5*time.Second))
	}
	ok := t.markEmpty("b")
	enabled := gp != nil && graceSec > 0
	switch state {
	case 0:
		verifAssert("block/first-empty-observation-never-releases", !ok)
	case 1:
		verifAssert("block/young-not-released", !ok)
	case 2:
		verifAssert("block/old-released-iff-enabled", ok == enabled)
	}
	if !enabled {
		verifAssert("block/disabled-never-releases", !ok)
	}
	t.markInUse("b")
	verifAssert("block/in-use-resets", !t.markEmpty("b"))
}
