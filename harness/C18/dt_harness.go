package deltatracker

// C18: desired-versus-actual tracking always reports the exact difference.
// Sym: every key and value (uint8; equality classes forked, values free), the probe key,
// the per-callback IterAction.  Shape: K operations chosen from the op alphabet.

type verifTracker = DeltaTracker[uint8, uint8]

func verifCheck(site string, d *verifTracker, des, dp map[uint8]uint8) {
	p := verifU8("probe")
	dv, dok := des[p]
	pv, pok := dp[p]
	gv, gok := d.Desired().Get(p)
	verifAssert(site+"/desired-get", gok == dok && (!dok || gv == dv))
	hv, hok := d.Dataplane().Get(p)
	verifAssert(site+"/dataplane-get", hok == pok && (!pok || hv == pv))
	uv, uok := d.PendingUpdates().Get(p)
	wantUpd := dok && (!pok || pv != dv)
	verifAssert(site+"/pending-update", uok == wantUpd && (!wantUpd || uv == dv))
	xv, xok := d.PendingDeletions().Get(p)
	wantDel := pok && !dok
	verifAssert(site+"/pending-deletion", xok == wantDel && (!wantDel || xv == pv))

	nupd, ndel := 0, 0
	for k, v := range des {
		if w, ok := dp[k]; !ok || w != v {
			nupd++
		}
	}
	for k := range dp {
		if _, ok := des[k]; !ok {
			ndel++
		}
	}
	verifAssert(site+"/len-desired", d.Desired().Len() == len(des))
	verifAssert(site+"/len-dataplane", d.Dataplane().Len() == len(dp))
	verifAssert(site+"/len-updates", d.PendingUpdates().Len() == nupd)
	verifAssert(site+"/len-deletions", d.PendingDeletions().Len() == ndel)
	verifAssert(site+"/insync", d.InSync() == (nupd == 0 && ndel == 0))
}

func verifOp(d *verifTracker, des, dp map[uint8]uint8, nops int) {
	op := verifChoose("op", nops)
	k := verifU8("k")
	v := verifU8("v")
	switch op {
	case 0:
		d.Desired().Set(k, v)
		des[k] = v
	case 1:
		d.Desired().Delete(k)
		delete(des, k)
	case 2:
		d.Dataplane().Set(k, v)
		dp[k] = v
	case 3:
		d.Dataplane().Delete(k)
		delete(dp, k)
	case 4:
		// apply pending updates; each callback decides symbolically
		d.PendingUpdates().Iter(func(k uint8, v uint8) IterAction {
			if verifBool("apply") {
				dp[k] = v
				return IterActionUpdateDataplane
			}
			return IterActionNoOp
		})
	case 5:
		d.PendingDeletions().Iter(func(k uint8) IterAction {
			if verifBool("applydel") {
				delete(dp, k)
				return IterActionUpdateDataplane
			}
			return IterActionNoOp
		})
	case 6:
		d.Desired().DeleteAll()
		clear(des)
	case 7:
		// resync: the dataplane turns out to hold exactly one (symbolic) entry
		_ = d.Dataplane().ReplaceAllIter(func(f func(k uint8, v uint8)) error {
			f(k, v)
			return nil
		})
		clear(dp)
		dp[k] = v
	}
}

// VerifHarness_C18_history: after every operation of a symbolic history all four views,
// their lengths and InSync equal the reference maps and their exact difference.
func VerifHarness_C18_history() {
	kmax := verifParam("K", 3)
	nops := verifParam("OPS", 6)
	d := New[uint8, uint8](WithValuesEqualFn[uint8, uint8](func(a, b uint8) bool { return a == b }))
	des := map[uint8]uint8{}
	dp := map[uint8]uint8{}
	for i := 0; i < kmax; i++ {
		verifOp(d, des, dp, nops)
	}
	verifCheck("end", d, des, dp)
}

// VerifHarness_C18_iter: iteration views enumerate exactly the difference (each key once).
func VerifHarness_C18_iter() {
	kmax := verifParam("K", 3)
	d := New[uint8, uint8](WithValuesEqualFn[uint8, uint8](func(a, b uint8) bool { return a == b }))
	des := map[uint8]uint8{}
	dp := map[uint8]uint8{}
	for i := 0; i < kmax; i++ {
		verifOp(d, des, dp, 4)
	}
	seen := map[uint8]uint8{}
	d.PendingUpdates().Iter(func(k uint8, v uint8) IterAction {
		_, dup := seen[k]
		verifAssert("iter/update-once", !dup)
		seen[k] = v
		dv, ok := des[k]
		verifAssert("iter/update-is-desired", ok && dv == v)
		pv, pok := dp[k]
		verifAssert("iter/update-needed", !pok || pv != v)
		return IterActionNoOp
	})
	n := 0
	for k, v := range des {
		if w, ok := dp[k]; !ok || w != v {
			n++
		}
	}
	verifAssert("iter/update-count", len(seen) == n)
	seenDel := map[uint8]bool{}
	d.PendingDeletions().Iter(func(k uint8) IterAction {
		verifAssert("iter/delete-once", !seenDel[k])
		seenDel[k] = true
		_, inDes := des[k]
		_, inDP := dp[k]
		verifAssert("iter/delete-needed", inDP && !inDes)
		return IterActionNoOp
	})
	m := 0
	for k := range dp {
		if _, ok := des[k]; !ok {
			m++
		}
	}
	verifAssert("iter/delete-count", len(seenDel) == m)
	nd := 0
	d.Desired().Iter(func(k uint8, v uint8) {
		nd++
		dv, ok := des[k]
		verifAssert("iter/desired-entry", ok && dv == v)
	})
	verifAssert("iter/desired-count", nd == len(des))
}
