package ipam

import (
	"context"
	gonet "net"

	v3 "github.com/projectcalico/api/pkg/apis/projectcalico/v3"
	corev1 "k8s.io/api/core/v1"

	internalapi "github.com/projectcalico/calico/libcalico-go/lib/apis/internalapi"
	"github.com/projectcalico/calico/libcalico-go/lib/backend/model"
	cnet "github.com/projectcalico/calico/libcalico-go/lib/net"
)

func modelAttr(h *string) model.AllocationAttribute { return model.AllocationAttribute{HandleID: h} }

// C20: automatically assigned addresses respect reservations, affinity and pool eligibility.
// Block level and pool-selection level only (the client's datastore loop is outside).

// verifCIDR4 is a free IPv4 CIDR: free 32-bit address, free prefix length 0..32 (normalised).
func verifCIDR4(name string) (cnet.IPNet, uint32, uint32) {
	a := verifU32(name + "-addr")
	pl := verifU8(name + "-plen")
	verifAssume(pl <= 32)
	mask := uint32(0xffffffff) << (32 - uint32(pl))
	a &= mask
	n := cnet.IPNet{IPNet: gonet.IPNet{
		IP:   gonet.IP{byte(a >> 24), byte(a >> 16), byte(a >> 8), byte(a)},
		Mask: gonet.IPMask{byte(mask >> 24), byte(mask >> 16), byte(mask >> 8), byte(mask)},
	}}
	return n, a, mask
}

// verifMakeSmallBlock: a valid /30 block affine to node1 in which each ordinal is free or held by
// h1 (forked), the free list ascending or rotated by one (released addresses go to the tail).
func verifMakeSmallBlock() *verifPre {
	_, cidr, _ := cnet.ParseCIDR("10.0.0.0/30")
	p := &verifPre{b: newBlock(*cidr, nil)}
	b := p.b
	aff := "host:node1"
	b.Affinity = &aff
	b.SequenceNumber = verifU64("blockseq")
	h1 := "h1"
	b.Attributes = append(b.Attributes[:0], modelAttr(&h1))
	b.Unallocated = nil
	for o := 0; o < 4; o++ {
		s := verifChoose("state", 2)
		p.state[o] = s
		if s == 0 {
			b.Unallocated = append(b.Unallocated, o)
			continue
		}
		idx := 0
		b.Allocations[o] = &idx
	}
	if len(b.Unallocated) > 1 && verifChoose("rotated", 2) == 1 {
		b.Unallocated = append(b.Unallocated[1:], b.Unallocated[0])
	}
	p.unalloc = append([]int(nil), b.Unallocated...)
	return p
}

// VerifHarness_C20_reserved: one autoAssign from an arbitrary valid /30 block with two free
// reservation CIDRs, a free request size and a requester that may or may not be the block's
// affine host, with and without the affinity check.
func VerifHarness_C20_reserved() {
	// request mode first, so that the refused case does not multiply with the block shapes
	mode := verifChoose("mode", 3) // 0: affinity check, own host; 1: no check, other host; 2: check, other host
	check := mode != 1
	host := "node1"
	if mode != 0 {
		host = "node2"
	}
	p := verifMakeSmallBlock()
	b := p.b
	r1, a1, m1 := verifCIDR4("rsv1")
	r2, a2, m2 := verifCIDR4("rsv2")
	rsv := cidrSliceFilter{r1, r2}
	reserved := func(o int) bool {
		ip := uint32(0x0a000000) + uint32(o)
		return ip&m1 == a1 || ip&m2 == a2
	}
	num := []int{0, 1, 2, 4}[verifChoose("num", 4)]
	h := "h2"
	ips, err := b.autoAssign(num, &h, AffinityConfig{AffinityType: AffinityTypeHost, Host: host}, nil, check, rsv)
	if check && host != "node1" {
		// strict affinity: nothing comes out of a block affine to another host
		verifAssert("affinity/other-hosts-block-refused", err != nil && len(ips) == 0)
		verifAssert("affinity/free-list-unchanged", len(b.Unallocated) == len(p.unalloc))
		for o := 0; o < 4; o++ {
			verifAssert("affinity/allocations-unchanged", (b.Allocations[o] == nil) == (p.state[o] == 0))
		}
		return
	}
	verifAssert("reserved/no-error", err == nil)
	// reference: walk the free list in order, take the first num unreserved ordinals
	var want, rest []int
	for _, o := range p.unalloc {
		if len(want) < num && !reserved(o) {
			want = append(want, o)
		} else {
			rest = append(rest, o)
		}
	}
	verifAssert("reserved/count", len(ips) == len(want))
	for i := range ips {
		o, e := b.IPToOrdinal(cnet.IP{IP: ips[i].IP})
		verifAssert("reserved/in-block", e == nil)
		verifAssert("reserved/never-a-reserved-address", !reserved(o))
		if i < len(want) {
			verifAssert("reserved/first-unreserved-in-order", o == want[i])
		}
		ones, bits := ips[i].Mask.Size()
		verifAssert("reserved/returned-with-block-mask", ones == 30 && bits == 32)
		verifAssert("reserved/now-owned-by-caller", verifHandleOf(b, o) == h)
		verifAssert("reserved/was-free", p.state[o] == 0)
	}
	verifAssert("reserved/skipped-keep-their-place", len(b.Unallocated) == len(rest))
	for i := range rest {
		if i < len(b.Unallocated) {
			verifAssert("reserved/skipped-keep-their-place", b.Unallocated[i] == rest[i])
		}
	}
	verifInvariant("reserved", b)
}

// VerifHarness_C20_filter: the reservation filter itself against prefix arithmetic, for a free
// probe address and a free candidate CIDR.
func VerifHarness_C20_filter() {
	r1, a1, m1 := verifCIDR4("rsv1")
	r2, a2, m2 := verifCIDR4("rsv2")
	rsv := cidrSliceFilter{r1, r2}
	ip := verifU32("probe")
	got := rsv.MatchesIP(cnet.IP{IP: gonet.IP{byte(ip >> 24), byte(ip >> 16), byte(ip >> 8), byte(ip)}})
	verifAssert("filter/matches-ip-iff-inside-a-reservation", got == (ip&m1 == a1 || ip&m2 == a2))
	c, ca, cm := verifCIDR4("cand")
	some := rsv.MatchesSome(&c)
	overlap := func(a, m uint32) bool { mm := m & cm; return a&mm == ca&mm }
	verifAssert("filter/matches-some-iff-overlap", some == (overlap(a1, m1) || overlap(a2, m2)))
}

// ---- pool eligibility ----

type verifPools struct{ pools []v3.IPPool }

func (v verifPools) GetEnabledPools(ctx context.Context, ipVersion int) ([]v3.IPPool, error) {
	return v.pools, nil
}
func (v verifPools) GetAllPools(ctx context.Context) ([]v3.IPPool, error) { return v.pools, nil }

var verifSelectors = []string{"", `rack == "a"`, `!has(rack)`}
var verifUses = [][]v3.IPPoolAllowedUse{
	{v3.IPPoolAllowedUseWorkload, v3.IPPoolAllowedUseTunnel},
	{v3.IPPoolAllowedUseTunnel},
	{v3.IPPoolAllowedUseLoadBalancer},
}
var verifLabelSets = []map[string]string{{}, {"rack": "a"}, {"rack": "b"}}

func verifSelMatches(sel int, labels int) bool {
	switch sel {
	case 0:
		return true
	case 1:
		return labels == 1
	default:
		return labels == 0
	}
}

// VerifHarness_C20_pools: determinePools + filterPoolsByUse + filterBlocksByPools: the pools a
// request may draw from are exactly the enabled automatic pools whose node and namespace
// selectors match and whose allowed uses include the request's use, and an affine block is
// usable only if it lies inside one of them (free block address).
func VerifHarness_C20_pools() {
	cidrs := []string{"10.1.0.0/16", "10.2.0.0/24"}
	bases := []uint32{0x0a010000, 0x0a020000}
	masks := []uint32{0xffff0000, 0xffffff00}
	auto, manual := v3.Automatic, v3.Manual
	var pools []v3.IPPool
	var nodeSel, nsSel, uses [2]int
	var isAuto [2]bool
	for i := 0; i < 2; i++ {
		nodeSel[i] = verifChoose("node-selector", 3)
		if i == 1 {
			nsSel[i] = verifChoose("ns-selector", 3)
		}
		uses[i] = verifChoose("uses", 3)
		isAuto[i] = verifChoose("mode", 2) == 0
		p := v3.IPPool{}
		p.Name = []string{"pool-a", "pool-b"}[i]
		p.Spec.CIDR = cidrs[i]
		p.Spec.BlockSize = 26
		p.Spec.NodeSelector = verifSelectors[nodeSel[i]]
		p.Spec.NamespaceSelector = verifSelectors[nsSel[i]]
		p.Spec.AllowedUses = verifUses[uses[i]]
		if isAuto[i] {
			p.Spec.AssignmentMode = &auto
		} else {
			p.Spec.AssignmentMode = &manual
		}
		pools = append(pools, p)
	}
	nodeLabels := verifChoose("node-labels", 3)
	nsLabels := verifChoose("ns-labels", 4) // 3 = no namespace given
	use := []v3.IPPoolAllowedUse{v3.IPPoolAllowedUseWorkload, v3.IPPoolAllowedUseTunnel, v3.IPPoolAllowedUseLoadBalancer}[verifChoose("use", 3)]
	node := internalapi.Node{}
	node.Labels = verifLabelSets[nodeLabels]
	var ns *corev1.Namespace
	nsl := 0
	if nsLabels < 3 {
		ns = &corev1.Namespace{}
		ns.Labels = verifLabelSets[nsLabels]
		nsl = nsLabels
	}
	c := ipamClient{pools: verifPools{pools}}
	matching, _, err := c.determinePools(context.Background(), nil, 4, node, ns, 32)
	verifAssert("pools/no-error", err == nil)
	allowed := filterPoolsByUse(matching, use)
	var eligible [2]bool
	n := 0
	for i := 0; i < 2; i++ {
		useOK := false
		for _, u := range verifUses[uses[i]] {
			if u == use {
				useOK = true
			}
		}
		eligible[i] = isAuto[i] && verifSelMatches(nodeSel[i], nodeLabels) && verifSelMatches(nsSel[i], nsl) && useOK
		if eligible[i] {
			n++
		}
	}
	verifAssert("pools/exactly-the-eligible-pools", len(allowed) == n)
	for _, p := range allowed {
		for i := 0; i < 2; i++ {
			if p.Name == pools[i].Name {
				verifAssert("pools/only-eligible-pools", eligible[i])
			}
		}
	}
	// an affine block (free address, /26) is usable only if it lies in an eligible pool
	blk, ba, _ := verifCIDR4("block")
	in, out, err := filterBlocksByPools([]cnet.IPNet{blk}, allowed)
	verifAssert("blocks/no-error", err == nil)
	inside := false
	for i := 0; i < 2; i++ {
		if eligible[i] && ba&masks[i] == bases[i] {
			inside = true
		}
	}
	verifAssert("blocks/usable-iff-inside-an-eligible-pool", (len(in) == 1) == inside && (len(out) == 1) == !inside)
}

// VerifHarness_C20_whole: MatchesWholeCIDR (does the reservation list cover a whole candidate
// block?) on every list of three reservations from a table of nested, adjacent and foreign CIDRs,
// against address-by-address coverage; and the call leaves the reservation list intact: afterwards
// MatchesIP still answers by prefix arithmetic over the ORIGINAL reservations for a free address.
func VerifHarness_C20_whole() {
	table := []string{"10.0.0.0/28", "10.0.0.16/28", "10.0.0.0/29", "10.0.0.8/29", "10.0.1.0/26", "10.0.0.4/30"}
	cands := []string{"10.0.0.0/28", "10.0.0.0/27", "10.0.1.0/26", "10.0.0.0/29"}
	var rsv cidrSliceFilter
	var bases, masks []uint32
	for i := 0; i < 3; i++ {
		_, n, _ := cnet.ParseCIDR(table[verifChoose("reservation", len(table))])
		rsv = append(rsv, *n)
		ones, _ := n.Mask.Size()
		ip4 := n.IP.To4()
		bases = append(bases, uint32(ip4[0])<<24|uint32(ip4[1])<<16|uint32(ip4[2])<<8|uint32(ip4[3]))
		masks = append(masks, uint32(0xffffffff)<<(32-uint32(ones)))
	}
	inside := func(ip uint32) bool {
		for i := range bases {
			if ip&masks[i] == bases[i] {
				return true
			}
		}
		return false
	}
	_, cand, _ := cnet.ParseCIDR(cands[verifChoose("candidate", len(cands))])
	ones, _ := cand.Mask.Size()
	c4 := cand.IP.To4()
	cbase := uint32(c4[0])<<24 | uint32(c4[1])<<16 | uint32(c4[2])<<8 | uint32(c4[3])
	covered := true
	for off := uint32(0); off < uint32(1)<<(32-uint32(ones)); off++ {
		if !inside(cbase + off) {
			covered = false
		}
	}
	verifAssert("whole/covered-iff-every-address-reserved", rsv.MatchesWholeCIDR(cand) == covered)
	ip := verifU32("probe")
	got := rsv.MatchesIP(cnet.IP{IP: gonet.IP{byte(ip >> 24), byte(ip >> 16), byte(ip >> 8), byte(ip)}})
	verifAssert("whole/reservations-intact-after-the-query", got == inside(ip))
}
