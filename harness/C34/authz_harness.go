package authorizer

import (
	"context"

	"k8s.io/apiserver/pkg/authentication/user"
	k8sauth "k8s.io/apiserver/pkg/authorization/authorizer"
	genericapirequest "k8s.io/apiserver/pkg/endpoints/request"
)

// C34: tiered policy authorization is correct and race-free.
// Sym: the decision and error presence the backing authorizer returns for each of the three
// sub-requests.  The three goroutines are run under the engine's shared-access monitor.

type verifAuthz struct {
	dTier, dPol, dWild    k8sauth.Decision
	eTier, ePol, eWild    bool
	seenTier, seenP, seenW int
}

type verifErr struct{}

func (verifErr) Error() string { return "backend error" }

func (a *verifAuthz) Authorize(ctx context.Context, attrs k8sauth.Attributes) (k8sauth.Decision, string, error) {
	var d k8sauth.Decision
	var e bool
	switch {
	case attrs.GetResource() == "tiers":
		d, e = a.dTier, a.eTier
		a.seenTier++
	case attrs.GetName() == "tier1.*":
		d, e = a.dWild, a.eWild
		a.seenW++
	default:
		d, e = a.dPol, a.ePol
		a.seenP++
	}
	if e {
		return d, "", verifErr{}
	}
	return d, "", nil
}

func (a *verifAuthz) ConditionsAwareAuthorize(ctx context.Context, attrs k8sauth.Attributes) k8sauth.ConditionsAwareDecision {
	return k8sauth.ConditionsAwareDecisionFromParts(a.Authorize(ctx, attrs))
}

func (a *verifAuthz) EvaluateConditions(ctx context.Context, decision k8sauth.ConditionsAwareDecision, data k8sauth.ConditionsData) (k8sauth.Decision, string, error) {
	return k8sauth.DecisionDeny, "", k8sauth.ErrorConditionEvaluationNotSupported
}

func verifDecision(name string) k8sauth.Decision {
	return k8sauth.Decision(verifChoose(name, 3)) // Deny, Allow, NoOpinion
}

func VerifHarness_C34_authorize() {
	verifRaceMonitor(true)
	az := &verifAuthz{
		dTier: verifDecision("tier"), dPol: verifDecision("policy"), dWild: verifDecision("wildcard"),
		eTier: verifBool("tier.err"), ePol: verifBool("policy.err"), eWild: verifBool("wildcard.err"),
	}
	ctx := genericapirequest.NewContext()
	ctx = genericapirequest.WithUser(ctx, &user.DefaultInfo{Name: "u"})
	ctx = genericapirequest.WithRequestInfo(ctx, &genericapirequest.RequestInfo{
		IsResourceRequest: true, Path: "/apis/projectcalico.org/v3/globalnetworkpolicies/tier1.p", Verb: "get",
		APIGroup: "projectcalico.org", APIVersion: "v3", Resource: "globalnetworkpolicies", Name: "tier1.p",
	})
	err := NewTierAuthorizer(az).AuthorizeTierOperation(ctx, "tier1.p", "tier1")
	allowed := az.dTier == k8sauth.DecisionAllow && (az.dPol == k8sauth.DecisionAllow || az.dWild == k8sauth.DecisionAllow)
	verifAssert("allowed-iff-tier-get-and-policy-or-wildcard", (err == nil) == allowed)
	verifAssert("each-subrequest-asked-once", az.seenTier == 1 && az.seenP == 1 && az.seenW == 1)
}
