package updateprocessors

// C29: a Kubernetes NetworkPolicy keeps its Kubernetes meaning after conversion.
// Real code executed: conversion.K8sNetworkPolicyToCalico (selectors, peers, ipBlocks, ports,
// SimplifyPorts, policy types) followed by ConvertNetworkPolicyV3ToV1Value / RulesAPIV3ToBackend
// (namespace scoping of selectors) and the real selector parser/evaluator.
// Shape (decoded from a shape number; the engine forks over a sampled window): pod selector,
// policy types, 1-2 rules with 0-2 peers and 0-2 ports each from tables covering matchLabels,
// all four matchExpressions operators, namespace selectors (nil, empty, labelled), ipBlocks with
// exceptions, numeric/named/ranged ports and default protocols.
// Sym: the labels of both pods and of both namespaces (presence forked, values free bytes from
// a three-letter alphabet), which namespace each pod is in, whether the peer is a pod at all, the
// peer's IP address, the connection's protocol and destination port, the pods' named port.

import (
	"strings"

	apiv3 "github.com/projectcalico/api/pkg/apis/projectcalico/v3"
	"github.com/projectcalico/api/pkg/lib/numorstring"
	kapiv1 "k8s.io/api/core/v1"
	networkingv1 "k8s.io/api/networking/v1"
	metav1 "k8s.io/apimachinery/pkg/apis/meta/v1"
	"k8s.io/apimachinery/pkg/util/intstr"

	"github.com/projectcalico/calico/libcalico-go/lib/backend/k8s/conversion"
	"github.com/projectcalico/calico/libcalico-go/lib/backend/model"
	"github.com/projectcalico/calico/libcalico-go/lib/selector"
)

type vkPod struct {
	isPod    bool
	ns       string
	labels   map[string]string
	nsLabels map[string]string
	ip       uint32
	// one named container port "http"
	hasNamed   bool
	namedProto uint8
	namedPort  uint16
}

type vkConn struct {
	proto uint8
	dport uint16
}

func vkVal(name string) string {
	s := verifString(name, 1)
	verifAssume(s[0] == 'x' || s[0] == 'y' || s[0] == 'z')
	return s
}

func vkLabels(tag string, keys []string) map[string]string {
	m := map[string]string{}
	for _, k := range keys {
		if verifBool(tag + "." + k + ".present") {
			m[k] = vkVal(tag + "." + k)
		}
	}
	return m
}

// ---- tables ----

func vkLS(i int) *metav1.LabelSelector {
	switch i {
	case 0:
		return nil
	case 1:
		return &metav1.LabelSelector{}
	case 2:
		return &metav1.LabelSelector{MatchLabels: map[string]string{"app": "x"}}
	case 3:
		return &metav1.LabelSelector{MatchLabels: map[string]string{"app": "x", "tier": "y"}}
	case 4:
		return &metav1.LabelSelector{MatchExpressions: []metav1.LabelSelectorRequirement{{Key: "app", Operator: metav1.LabelSelectorOpIn, Values: []string{"x", "y"}}}}
	case 5:
		return &metav1.LabelSelector{MatchExpressions: []metav1.LabelSelectorRequirement{{Key: "app", Operator: metav1.LabelSelectorOpNotIn, Values: []string{"x"}}}}
	case 6:
		return &metav1.LabelSelector{MatchExpressions: []metav1.LabelSelectorRequirement{{Key: "tier", Operator: metav1.LabelSelectorOpExists}}}
	}
	return &metav1.LabelSelector{MatchLabels: map[string]string{"tier": "z"}, MatchExpressions: []metav1.LabelSelectorRequirement{{Key: "app", Operator: metav1.LabelSelectorOpDoesNotExist}}}
}

const vkNumLS = 8

// namespace selectors use the namespace label key "team"
func vkNSLS(i int) *metav1.LabelSelector {
	switch i {
	case 0:
		return nil
	case 1:
		return &metav1.LabelSelector{}
	case 2:
		return &metav1.LabelSelector{MatchLabels: map[string]string{"team": "x"}}
	}
	return &metav1.LabelSelector{MatchExpressions: []metav1.LabelSelectorRequirement{{Key: "team", Operator: metav1.LabelSelectorOpNotIn, Values: []string{"y"}}}}
}

func vkPeer(i int) networkingv1.NetworkPolicyPeer {
	switch i {
	case 0:
		return networkingv1.NetworkPolicyPeer{PodSelector: vkLS(2)}
	case 1:
		return networkingv1.NetworkPolicyPeer{PodSelector: vkLS(1)}
	case 2:
		return networkingv1.NetworkPolicyPeer{NamespaceSelector: vkNSLS(1)}
	case 3:
		return networkingv1.NetworkPolicyPeer{NamespaceSelector: vkNSLS(2)}
	case 4:
		return networkingv1.NetworkPolicyPeer{NamespaceSelector: vkNSLS(3), PodSelector: vkLS(5)}
	case 5:
		return networkingv1.NetworkPolicyPeer{NamespaceSelector: vkNSLS(2), PodSelector: vkLS(6)}
	case 6:
		return networkingv1.NetworkPolicyPeer{IPBlock: &networkingv1.IPBlock{CIDR: "10.0.0.0/8"}}
	case 7:
		return networkingv1.NetworkPolicyPeer{IPBlock: &networkingv1.IPBlock{CIDR: "10.0.0.0/8", Except: []string{"10.1.0.0/16", "10.2.3.0/24"}}}
	case 8:
		return networkingv1.NetworkPolicyPeer{PodSelector: vkLS(7)}
	}
	return networkingv1.NetworkPolicyPeer{IPBlock: &networkingv1.IPBlock{CIDR: "192.168.5.7/32"}}
}

const vkNumPeers = 10

func vkPort(i int) networkingv1.NetworkPolicyPort {
	tcp, udp := kapiv1.ProtocolTCP, kapiv1.ProtocolUDP
	p80, p81, p82, p90, http := intstr.FromInt(80), intstr.FromInt(81), intstr.FromInt(82), intstr.FromInt(90), intstr.FromString("http")
	end := int32(85)
	end90 := int32(90)
	switch i {
	case 0:
		return networkingv1.NetworkPolicyPort{Port: &p80} // protocol defaults to TCP
	case 1:
		return networkingv1.NetworkPolicyPort{Protocol: &tcp, Port: &p81}
	case 2:
		return networkingv1.NetworkPolicyPort{Protocol: &udp, Port: &p80}
	case 3:
		return networkingv1.NetworkPolicyPort{Protocol: &tcp} // every TCP port
	case 4:
		return networkingv1.NetworkPolicyPort{Protocol: &tcp, Port: &http}
	case 5:
		return networkingv1.NetworkPolicyPort{Protocol: &tcp, Port: &p82, EndPort: &end}
	case 6:
		return networkingv1.NetworkPolicyPort{Protocol: &udp, Port: &http}
	case 7:
		return networkingv1.NetworkPolicyPort{Protocol: &tcp, Port: &p90}
	}
	return networkingv1.NetworkPolicyPort{Protocol: &tcp, Port: &p80, EndPort: &end90} // contains 81, 82-85 and 90
}

const vkNumPorts = 9

// ---- Kubernetes semantics (written from the NetworkPolicy API documentation) ----

func vkMatchLS(s *metav1.LabelSelector, labels map[string]string) bool {
	ok := true
	for k, v := range s.MatchLabels {
		lv, has := labels[k]
		ok = ok && has && lv == v
	}
	for _, e := range s.MatchExpressions {
		lv, has := labels[e.Key]
		in := false
		for _, v := range e.Values {
			in = in || (has && lv == v)
		}
		switch e.Operator {
		case metav1.LabelSelectorOpIn:
			ok = ok && in
		case metav1.LabelSelectorOpNotIn:
			ok = ok && !in
		case metav1.LabelSelectorOpExists:
			ok = ok && has
		case metav1.LabelSelectorOpDoesNotExist:
			ok = ok && !has
		}
	}
	return ok
}

func vkCIDR(s string) (uint32, uint32) {
	i := strings.IndexByte(s, '/')
	plen := 0
	for _, c := range s[i+1:] {
		plen = plen*10 + int(c-'0')
	}
	var a uint32
	for _, part := range strings.Split(s[:i], ".") {
		n := 0
		for _, c := range part {
			n = n*10 + int(c-'0')
		}
		a = a<<8 | uint32(n)
	}
	var m uint32
	if plen > 0 {
		m = uint32(0xffffffff) << uint(32-plen)
	}
	return a & m, m
}

func vkInCIDR(ip uint32, cidr string) bool {
	base, m := vkCIDR(cidr)
	return ip&m == base
}

func vkProtoNum(p *kapiv1.Protocol) uint8 {
	if p == nil {
		return 6
	}
	switch *p {
	case kapiv1.ProtocolUDP:
		return 17
	case kapiv1.ProtocolSCTP:
		return 132
	}
	return 6
}

func vkK8sPeerOK(peers []networkingv1.NetworkPolicyPeer, policyNS string, remote *vkPod) bool {
	if len(peers) == 0 {
		return true
	}
	any := false
	for _, p := range peers {
		if p.IPBlock != nil {
			ok := vkInCIDR(remote.ip, p.IPBlock.CIDR)
			for _, ex := range p.IPBlock.Except {
				ok = ok && !vkInCIDR(remote.ip, ex)
			}
			any = any || ok
			continue
		}
		ok := remote.isPod
		if p.NamespaceSelector == nil {
			ok = ok && remote.ns == policyNS
		} else {
			ok = ok && vkMatchLS(p.NamespaceSelector, remote.nsLabels)
		}
		if p.PodSelector != nil {
			ok = ok && vkMatchLS(p.PodSelector, remote.labels)
		}
		any = any || ok
	}
	return any
}

func vkK8sPortOK(ports []networkingv1.NetworkPolicyPort, c vkConn, dest *vkPod) bool {
	if len(ports) == 0 {
		return true
	}
	any := false
	for _, q := range ports {
		pn := vkProtoNum(q.Protocol)
		ok := c.proto == pn
		if q.Port != nil {
			if q.Port.Type == intstr.String {
				ok = ok && dest.isPod && dest.hasNamed && q.Port.StrVal == "http" && dest.namedProto == pn && dest.namedPort == c.dport
			} else if q.EndPort != nil {
				ok = ok && int32(c.dport) >= q.Port.IntVal && int32(c.dport) <= *q.EndPort
			} else {
				ok = ok && int32(c.dport) == q.Port.IntVal
			}
		}
		any = any || ok
	}
	return any
}

// ---- Calico semantics on the converted v1 model ----

func vkEffLabels(p *vkPod) map[string]string {
	eff := map[string]string{}
	for k, v := range p.labels {
		eff[k] = v
	}
	eff[apiv3.LabelNamespace] = p.ns
	eff[apiv3.LabelOrchestrator] = apiv3.OrchestratorKubernetes
	for k, v := range p.nsLabels {
		eff[conversion.NamespaceLabelPrefix+k] = v
	}
	return eff
}

func vkSel(text string, labels map[string]string, isEndpoint bool) bool {
	if text == "" {
		return true
	}
	if !isEndpoint {
		return false // a selector only ever matches endpoints
	}
	sel, err := selector.Parse(text)
	if err != nil {
		verifFail("calico/converted-selector-does-not-parse")
	}
	return sel.Evaluate(labels)
}

func vkCalicoProto(p *numorstring.Protocol) (uint8, bool) {
	if p == nil {
		return 0, false
	}
	if p.Type == numorstring.NumOrStringNum {
		return uint8(p.NumVal), true
	}
	switch strings.ToLower(p.StrVal) {
	case "tcp":
		return 6, true
	case "udp":
		return 17, true
	case "sctp":
		return 132, true
	case "icmp":
		return 1, true
	}
	verifFail("calico/unknown-protocol-name")
	return 0, false
}

func vkCalicoRuleMatches(r *model.Rule, ingress bool, remote, dest *vkPod, c vkConn) bool {
	ok := true
	pn, hasProto := vkCalicoProto(r.Protocol)
	if hasProto {
		ok = ok && c.proto == pn
	}
	sel, nets, notNets := r.SrcSelector, r.SrcNets, r.NotSrcNets
	if !ingress {
		sel, nets, notNets = r.DstSelector, r.DstNets, r.NotDstNets
	}
	ok = ok && vkSel(sel, vkEffLabels(remote), remote.isPod)
	if len(nets) > 0 {
		in := false
		for _, n := range nets {
			in = in || vkInCIDR(remote.ip, n.String())
		}
		ok = ok && in
	}
	for _, n := range notNets {
		ok = ok && !vkInCIDR(remote.ip, n.String())
	}
	if len(r.DstPorts) > 0 {
		in := false
		for _, p := range r.DstPorts {
			if p.PortName != "" {
				in = in || (hasProto && dest.isPod && dest.hasNamed && p.PortName == "http" && dest.namedProto == pn && dest.namedPort == c.dport)
			} else {
				in = in || (c.dport >= p.MinPort && c.dport <= p.MaxPort)
			}
		}
		// numeric and named ports only make sense with a port-bearing protocol
		ok = ok && in && hasProto
	}
	return ok
}

func VerifHarness_C29_convert() {
	from := verifParam("FROM", 0)
	count := verifParam("COUNT", 64)
	stride := verifParam("STRIDE", 1)
	shape := from + verifChoose("shape", count)*stride
	digit := func(radix int) int {
		d := shape % radix
		shape /= radix
		return d
	}
	// MODE 1: ports only (no peers, empty pod selector, no labels) - cheap enough to enumerate every
	// list of up to two ports exhaustively; MODE 0: everything, sampled.
	portsOnly := verifParam("MODE", 0) == 1
	ingress := digit(2) == 0
	np := &networkingv1.NetworkPolicy{ObjectMeta: metav1.ObjectMeta{Name: "np1", Namespace: "ns1"}}
	lsIdx, typesIdx := 1, 2
	if !portsOnly {
		lsIdx, typesIdx = digit(vkNumLS), digit(3)
	}
	if ls := vkLS(lsIdx); ls != nil {
		np.Spec.PodSelector = *ls
	}
	switch typesIdx {
	case 0:
		np.Spec.PolicyTypes = []networkingv1.PolicyType{networkingv1.PolicyTypeIngress}
	case 1:
		np.Spec.PolicyTypes = []networkingv1.PolicyType{networkingv1.PolicyTypeEgress}
	default:
		np.Spec.PolicyTypes = []networkingv1.PolicyType{networkingv1.PolicyTypeIngress, networkingv1.PolicyTypeEgress}
	}
	type vkRule struct {
		peers []networkingv1.NetworkPolicyPeer
		ports []networkingv1.NetworkPolicyPort
	}
	var rules []vkRule
	nr := 1
	if !portsOnly {
		nr = digit(3) // 0 rules = select-and-isolate
	}
	for i := 0; i < nr; i++ {
		var r vkRule
		npeers := 0
		if !portsOnly {
			npeers = digit(3)
		}
		for k := 0; k < npeers; k++ {
			r.peers = append(r.peers, vkPeer(digit(vkNumPeers)))
		}
		for k, n := 0, digit(3); k < n; k++ {
			r.ports = append(r.ports, vkPort(digit(vkNumPorts)))
		}
		rules = append(rules, r)
		if ingress {
			np.Spec.Ingress = append(np.Spec.Ingress, networkingv1.NetworkPolicyIngressRule{From: r.peers, Ports: r.ports})
		} else {
			np.Spec.Egress = append(np.Spec.Egress, networkingv1.NetworkPolicyEgressRule{To: r.peers, Ports: r.ports})
		}
	}

	// the real conversion pipeline
	kvp, err := conversion.NewConverter().K8sNetworkPolicyToCalico(np)
	verifAssert("conversion-succeeds", err == nil && kvp != nil)
	if err != nil || kvp == nil {
		return
	}
	v1, err := ConvertNetworkPolicyV3ToV1Value(kvp.Value)
	verifAssert("v1-conversion-succeeds", err == nil)
	pol := v1.(*model.Policy)

	// the cluster state and the connection
	nsLabels := map[string]map[string]string{"ns1": {}, "ns2": {}}
	if !portsOnly {
		nsLabels = map[string]map[string]string{"ns1": vkLabels("ns1", []string{"team"}), "ns2": vkLabels("ns2", []string{"team"})}
	}
	mkPod := func(tag string) *vkPod {
		p := &vkPod{isPod: true, ns: "ns1", labels: map[string]string{}, ip: verifU32(tag + ".ip")}
		if !portsOnly {
			p.labels = vkLabels(tag, []string{"app", "tier"})
			if verifBool(tag + ".in-ns2") {
				p.ns = "ns2"
			}
		}
		p.nsLabels = nsLabels[p.ns]
		p.hasNamed = verifBool(tag + ".has-named-port")
		p.namedProto = 6
		if verifBool(tag + ".named-port-udp") {
			p.namedProto = 17
		}
		p.namedPort = verifU16(tag + ".named-port")
		return p
	}
	local := mkPod("local")
	remote := mkPod("remote")
	if verifBool("remote.not-a-pod") {
		remote.isPod = false
		remote.labels, remote.nsLabels, remote.hasNamed, remote.ns = map[string]string{}, map[string]string{}, false, ""
	}
	c := vkConn{proto: verifU8("conn.proto"), dport: verifU16("conn.dport")}
	verifAssume(c.proto == 6 || c.proto == 17 || c.proto == 132 || c.proto == 1)
	dest := local
	if !ingress {
		dest = remote
	}

	// Kubernetes meaning
	typeOn := false
	for _, t := range np.Spec.PolicyTypes {
		typeOn = typeOn || (ingress && t == networkingv1.PolicyTypeIngress) || (!ingress && t == networkingv1.PolicyTypeEgress)
	}
	k8sApplies := typeOn && local.ns == "ns1" && vkMatchLS(&np.Spec.PodSelector, local.labels)
	k8sAllows := false
	for _, r := range rules {
		k8sAllows = k8sAllows || (vkK8sPeerOK(r.peers, "ns1", remote) && vkK8sPortOK(r.ports, c, dest))
	}

	// Calico meaning of the converted policy
	calTypeOn := false
	for _, t := range pol.Types {
		calTypeOn = calTypeOn || (ingress && t == "ingress") || (!ingress && t == "egress")
	}
	calApplies := calTypeOn && vkSel(pol.Selector, vkEffLabels(local), true)
	calRules := pol.InboundRules
	if !ingress {
		calRules = pol.OutboundRules
	}
	calAllows := false
	for i := range calRules {
		verifAssert("converted-rules-are-allow-rules", calRules[i].Action == "allow")
		calAllows = calAllows || vkCalicoRuleMatches(&calRules[i], ingress, remote, dest, c)
	}
	verifAssert("policy-applies-to-the-same-pods", calApplies == k8sApplies)
	if k8sApplies {
		verifAssert("connection-allowed-iff-kubernetes-allows", calAllows == k8sAllows)
	}
}
