package hash

import "regexp"

// Engine self-test (not a property): the symbolic NFA used for (*regexp.Regexp).MatchString agrees
// with hand-written matchers on every ASCII string up to length N, and (through the sampled
// models replayed natively) with package regexp itself.

var (
	vReShort = regexp.MustCompile(`^_\w*$`)
	vReDNS   = regexp.MustCompile(`^[a-z0-9]([-a-z0-9]*[a-z0-9])?$`)
	vRePlus  = regexp.MustCompile(`a+b`)
	vReWordB = regexp.MustCompile(`\bab\b`)
	vReAlt   = regexp.MustCompile(`^(ab|a)(c|bc)$`)
	vReFold  = regexp.MustCompile(`(?i)^k[x-z]$`)
)

func vWord(b byte) bool {
	return b == '_' || (b >= 'a' && b <= 'z') || (b >= 'A' && b <= 'Z') || (b >= '0' && b <= '9')
}
func vAlnum(b byte) bool { return (b >= 'a' && b <= 'z') || (b >= '0' && b <= '9') }

func VerifHarness_SELFTEST_regexp() {
	n := verifChoose("len", verifParam("N", 4)+1)
	s := verifString("s", n)
	for i := 0; i < n; i++ {
		verifAssume(s[i] < 0x80)
	}
	// ^_\w*$
	want := n >= 1 && s[0] == '_'
	for i := 1; i < n; i++ {
		want = want && vWord(s[i])
	}
	got := vReShort.MatchString(s)
	verifObserve("short", got)
	verifAssert("short", got == want)
	// DNS label
	want = n >= 1 && vAlnum(s[0]) && vAlnum(s[n-1])
	for i := 1; i+1 < n; i++ {
		want = want && (vAlnum(s[i]) || s[i] == '-')
	}
	got = vReDNS.MatchString(s)
	verifObserve("dns", got)
	verifAssert("dns", got == want)
	// a+b anywhere
	want = false
	for i := 0; i+1 < n; i++ {
		want = want || (s[i] == 'a' && s[i+1] == 'b')
	}
	got = vRePlus.MatchString(s)
	verifObserve("plus", got)
	verifAssert("plus", got == want)
	// \bab\b
	want = false
	for i := 0; i+1 < n; i++ {
		before := i > 0 && vWord(s[i-1])
		after := i+2 < n && vWord(s[i+2])
		want = want || (s[i] == 'a' && s[i+1] == 'b' && !before && !after)
	}
	got = vReWordB.MatchString(s)
	verifObserve("wordb", got)
	verifAssert("wordb", got == want)
	// ^(ab|a)(c|bc)$ : "abc" (two ways), "ac", "abbc"
	want = (n == 2 && s[0] == 'a' && s[1] == 'c') || (n == 3 && s[0] == 'a' && s[1] == 'b' && s[2] == 'c') ||
		(n == 4 && s[0] == 'a' && s[1] == 'b' && s[2] == 'b' && s[3] == 'c')
	got = vReAlt.MatchString(s)
	verifObserve("alt", got)
	verifAssert("alt", got == want)
	// (?i)^k[x-z]$ : ASCII folds only (the Kelvin sign is not ASCII)
	want = n == 2 && (s[0] == 'k' || s[0] == 'K') && ((s[1] >= 'x' && s[1] <= 'z') || (s[1] >= 'X' && s[1] <= 'Z'))
	got = vReFold.MatchString(s)
	verifObserve("fold", got)
	verifAssert("fold", got == want)
}
