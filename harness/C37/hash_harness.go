package hash

// C37: length-limited kernel object names never collide, always fit, are deterministic.
// Sym: every byte of both suffixes; the SHA-256 digest is an arbitrary function of its input
// (fresh output bytes + functional consistency).  Shape: the two suffix lengths (forked),
// prefix and limit from the parameter table (the real prefixes/limits used by felix/rules).

var verifPrefixes = []string{"cali-pi-", "cali-pri-", "cali-tw-", "c"}

func verifLen(name string, lo, hi int) int {
	return lo + verifChoose(name, hi-lo+1)
}

// VerifHarness_C37_pair: two suffixes, same prefix and limit.
func VerifHarness_C37_pair() {
	maxLen := verifParam("MAXLEN", 28)
	prefix := verifPrefixes[verifParam("PREFIX", 0)]
	room := maxLen - len(prefix)
	span := verifParam("SPAN", 2)
	lo := room - span
	if lo < 0 {
		lo = 0
	}
	l1 := verifLen("l1", lo, room+span)
	l2 := verifLen("l2", lo, room+span)
	s1 := verifString("s1", l1)
	s2 := verifString("s2", l2)
	n1 := GetLengthLimitedID(prefix, s1, maxLen)
	n2 := GetLengthLimitedID(prefix, s2, maxLen)
	verifReach("returned")
	verifAssert("fits", len(n1) <= maxLen && len(n2) <= maxLen)
	verifAssert("keeps-prefix", n1[:len(prefix)] == prefix)
	short1 := len(prefix)+len(s1) > maxLen || (len(prefix)+len(s1) == maxLen && s1[0] == '_')
	short2 := len(prefix)+len(s2) > maxLen || (len(prefix)+len(s2) == maxLen && s2[0] == '_')
	if !short1 && l1 > 0 {
		verifAssert("unshortened-is-verbatim", n1 == prefix+s1)
	}
	if s1 == s2 {
		verifAssert("deterministic", n1 == n2)
	} else if !(short1 && short2) && !(l1 == 0 || l2 == 0) {
		// equality of two shortened names is a truncated-hash collision (cryptographic assumption);
		// every other pair of distinct identities must get distinct names.
		verifAssert("distinct", n1 != n2)
	}
	if l1 == 0 && l2 > 0 && !short2 && s2 != "_" {
		verifAssert("empty-distinct", n1 != n2)
	}
}

// VerifHarness_C37_nopanic: a single call never panics for any suffix around or above the limit.
func VerifHarness_C37_nopanic() {
	maxLen := verifParam("MAXLEN", 28)
	prefix := verifPrefixes[verifParam("PREFIX", 0)]
	room := maxLen - len(prefix)
	l := verifLen("l", 0, room+verifParam("OVER", 3))
	s := verifString("s", l)
	n := GetLengthLimitedID(prefix, s, maxLen)
	verifAssert("fits", len(n) <= maxLen)
}
