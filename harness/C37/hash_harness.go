package hash

// C37: length-limited kernel object names never collide, always fit, are deterministic.
// Sym: every byte of both suffixes; the SHA-256 digest is an arbitrary function of its input
// (fresh output bytes + functional consistency).  Shape: the two suffix lengths (forked),
// prefix and limit from the parameter table (the real prefixes/limits used by felix/rules).

var verifPrefixes = []string{"cali-pi-", "cali-pri-", "cali-tw-", "c"}

func verifLen(name string, lo, hi int) int {
	return lo + verifChoose(name, hi-lo+1)
}

// VerifHarness_C37_pair: two suffixes, same prefix and limit.
func VerifHarness_C37_pair() {
	maxLen := verifParam("MAXLEN", 28)
	prefix := verifPrefixes[verifParam("PREFIX", 0)]
	room := maxLen - len(prefix)
	span := verifParam("SPAN", 2)
	lo := room - span
	if lo < 0 {
		lo = 0
	}
	// default: both lengths around the limit; L1LO..L2HI override (long limits: a name just over the
	// limit against names as long as a complete '_' + hash)
	l1 := verifLen("l1", verifParam("L1LO", lo), verifParam("L1HI", room+span))
	l2 := verifLen("l2", verifParam("L2LO", lo), verifParam("L2HI", room+span))
	s1 := verifString("s1", l1)
	s2 := verifString("s2", l2)
	h0 := verifHashCalls("hashcalls0")
	n1 := GetLengthLimitedID(prefix, s1, maxLen)
	h1 := verifHashCalls("hashcalls1")
	n2 := GetLengthLimitedID(prefix, s2, maxLen)
	h2 := verifHashCalls("hashcalls2")
	hashed1, hashed2 := h1 > h0, h2 > h1 // did the implementation replace the suffix by a hash
	verifReach("returned")
	verifAssert("fits", len(n1) <= maxLen && len(n2) <= maxLen)
	verifAssert("keeps-prefix", n1[:len(prefix)] == prefix)
	if !hashed1 && l1 > 0 {
		verifAssert("unshortened-is-verbatim", n1 == prefix+s1)
	}
	verifAssert("hashed-when-too-long", hashed1 || len(prefix)+len(s1) <= maxLen)
	if s1 == s2 {
		verifAssert("deterministic", n1 == n2)
	} else if !(hashed1 && hashed2) && !(l1 == 0 || l2 == 0) {
		// equality of two hashed names is a truncated-hash collision (cryptographic assumption);
		// every other pair of distinct identities - in particular a verbatim name against a hashed
		// one, for every value the hash could take - must get distinct names.
		verifAssert("distinct", n1 != n2)
	}
	short2 := hashed2
	if l1 == 0 && l2 > 0 && !short2 && s2 != "_" {
		verifAssert("empty-distinct", n1 != n2)
	}
}

// VerifHarness_C37_nopanic: a single call never panics for any suffix around or above the limit.
func VerifHarness_C37_nopanic() {
	maxLen := verifParam("MAXLEN", 28)
	prefix := verifPrefixes[verifParam("PREFIX", 0)]
	room := maxLen - len(prefix)
	l := verifLen("l", 0, room+verifParam("OVER", 3))
	s := verifString("s", l)
	n := GetLengthLimitedID(prefix, s, maxLen)
	verifAssert("fits", len(n) <= maxLen)
}
