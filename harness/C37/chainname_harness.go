package rules

import (
	"github.com/projectcalico/calico/felix/iptables"
	"github.com/projectcalico/calico/felix/nftables"
	"github.com/projectcalico/calico/felix/types"
)

// C37 (felix/rules half): the chain-name functions themselves.  Two identities of the same kind
// with free names (every byte free, lengths around the limit) get names that fit the limit, keep
// the prefix, and are distinct unless both were shortened to a hash (a truncated-hash collision is
// the cryptographic assumption).  Kinds: endpoint chains (interface names), profile chains, policy
// chains; iptables (28) and nftables (256) limits.
func VerifHarness_C37_chainnames() {
	kind := verifParam("KIND", 0) // 0 endpoint, 1 profile, 2 policy
	nft := verifParam("NFT", 0) == 1
	maxLen := iptables.MaxChainNameLength
	if nft {
		maxLen = nftables.MaxChainNameLength
	}
	prefix := []string{WorkloadToEndpointPfx, string(ProfileInboundPfx), string(PolicyInboundPfx)}[kind]
	fixed := ""
	if kind == 2 {
		fixed = (&types.PolicyID{Name: "", Kind: "GlobalNetworkPolicy"}).ID()
	}
	room := maxLen - len(prefix) - len(fixed)
	span := verifParam("SPAN", 1)
	lo := room - span
	if lo < 1 {
		lo = 1
	}
	l1 := verifParam("L1LO", lo) + verifChoose("l1", verifParam("L1HI", room+span)-verifParam("L1LO", lo)+1)
	l2 := verifParam("L2LO", lo) + verifChoose("l2", verifParam("L2HI", room+span)-verifParam("L2LO", lo)+1)
	s1 := verifString("s1", l1)
	s2 := verifString("s2", l2)
	name := func(s string) string {
		switch kind {
		case 0:
			return EndpointChainName(prefix, s, maxLen)
		case 1:
			return ProfileChainName(ProfileChainNamePrefix(prefix), &types.ProfileID{Name: s}, nft)
		}
		return PolicyChainName(PolicyChainNamePrefix(prefix), &types.PolicyID{Name: s, Kind: "GlobalNetworkPolicy"}, nft)
	}
	h0 := verifHashCalls("hashcalls0")
	n1 := name(s1)
	h1 := verifHashCalls("hashcalls1")
	n2 := name(s2)
	h2 := verifHashCalls("hashcalls2")
	hashed1, hashed2 := h1 > h0, h2 > h1
	verifAssert("chain/fits", len(n1) <= maxLen && len(n2) <= maxLen)
	verifAssert("chain/keeps-prefix", n1[:len(prefix)] == prefix && n2[:len(prefix)] == prefix)
	if s1 == s2 {
		verifAssert("chain/deterministic", n1 == n2)
	} else if !(hashed1 && hashed2) {
		verifAssert("chain/distinct", n1 != n2)
	}
}
