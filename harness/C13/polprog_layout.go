package polprog

// C13: the offsets the policy-program builder hard-codes into BPF instructions agree with the
// kernel-side struct cali_tc_state / struct ip_set_key as laid out by clang from the current
// headers (parameters c.* come from tools/clayout.py, regenerated on every run).

func verifOff(site string, got int16, param string) {
	verifAssert(site, int(got) == verifParam(param, -1))
}

func VerifHarness_C13_polprog() {
	verifOff("state/ip_src", stateOffIPSrc.Offset, "c.cali_tc_state.ip_src")
	verifOff("state/ip_dst", stateOffIPDst.Offset, "c.cali_tc_state.ip_dst")
	verifOff("state/pre_nat_ip_dst", stateOffPreNATIPDst.Offset, "c.cali_tc_state.pre_nat_ip_dst")
	verifOff("state/post_nat_ip_dst", stateOffPostNATIPDst.Offset, "c.cali_tc_state.post_nat_ip_dst")
	verifOff("state/pol_rc", stateOffPolResult.Offset, "c.cali_tc_state.pol_rc")
	verifOff("state/sport", stateOffSrcPort.Offset, "c.cali_tc_state.sport")
	verifOff("state/dport", stateOffDstPort.Offset, "c.cali_tc_state.dport")
	verifOff("state/icmp_type", stateOffICMPType.Offset, "c.cali_tc_state.icmp_type")
	verifOff("state/pre_nat_dport", stateOffPreNATDstPort.Offset, "c.cali_tc_state.pre_nat_dport")
	verifOff("state/post_nat_dport", stateOffPostNATDstPort.Offset, "c.cali_tc_state.post_nat_dport")
	verifOff("state/ip_proto", stateOffIPProto.Offset, "c.cali_tc_state.ip_proto")
	verifOff("state/ip_size", stateOffIPSize.Offset, "c.cali_tc_state.ip_size")
	verifOff("state/rules_hit", stateOffRulesHit.Offset, "c.cali_tc_state.rules_hit")
	verifOff("state/rule_ids", stateOffRuleIDs.Offset, "c.cali_tc_state.rule_ids")
	verifOff("state/flags", stateOffFlags.Offset, "c.cali_tc_state.flags")
	verifOff("ipset-key/prefix", ipsKeyPrefix, "c.ip_set_key.mask")
	verifOff("ipset-key/id", ipsKeyID, "c.ip_set_key.set_id")
	verifOff("ipset-key/addr", ipsKeyAddr, "c.ip_set_key.addr")
	verifOff("ipset-key/port", ipsKeyPort, "c.ip_set_key.port")
	verifOff("ipset-key/proto", ipsKeyProto, "c.ip_set_key.protocol")
	verifOff("ipset-key/pad", ipsKeyPad, "c.ip_set_key.pad")
}
