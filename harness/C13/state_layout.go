package state

import "unsafe"

// C13: the Go mirror of struct cali_tc_state (cast through unsafe in AsBytes/StateFromBytes) has
// every field Go code reads at the offset clang gives the C field.

func VerifHarness_C13_state() {
	var s State
	chk := func(site string, goOff uintptr, param string) {
		verifAssert(site, int(goOff) == verifParam(param, -1))
	}
	chk("state/SrcAddr", unsafe.Offsetof(s.SrcAddr), "c.cali_tc_state.ip_src")
	chk("state/DstAddr", unsafe.Offsetof(s.DstAddr), "c.cali_tc_state.ip_dst")
	chk("state/PreNATDstAddr", unsafe.Offsetof(s.PreNATDstAddr), "c.cali_tc_state.pre_nat_ip_dst")
	chk("state/PostNATDstAddr", unsafe.Offsetof(s.PostNATDstAddr), "c.cali_tc_state.post_nat_ip_dst")
	chk("state/TunIP", unsafe.Offsetof(s.TunIP), "c.cali_tc_state.tun_ip")
	chk("state/PolicyRC", unsafe.Offsetof(s.PolicyRC), "c.cali_tc_state.pol_rc")
	chk("state/SrcPort", unsafe.Offsetof(s.SrcPort), "c.cali_tc_state.sport")
	chk("state/DstPort", unsafe.Offsetof(s.DstPort), "c.cali_tc_state.dport")
	chk("state/PreNATDstPort", unsafe.Offsetof(s.PreNATDstPort), "c.cali_tc_state.pre_nat_dport")
	chk("state/PostNATDstPort", unsafe.Offsetof(s.PostNATDstPort), "c.cali_tc_state.post_nat_dport")
	chk("state/IPProto", unsafe.Offsetof(s.IPProto), "c.cali_tc_state.ip_proto")
	chk("state/IPSize", unsafe.Offsetof(s.IPSize), "c.cali_tc_state.ip_size")
	chk("state/RulesHit", unsafe.Offsetof(s.RulesHit), "c.cali_tc_state.rules_hit")
	chk("state/RuleIDs", unsafe.Offsetof(s.RuleIDs), "c.cali_tc_state.rule_ids")
	chk("state/Flags", unsafe.Offsetof(s.Flags), "c.cali_tc_state.flags")
	chk("state/ProgStartTime", unsafe.Offsetof(s.ProgStartTime), "c.cali_tc_state.prog_start_time")
	verifAssert("state/max-rule-ids", MaxRuleIDs*8 == verifParam("c.cali_tc_state.flags", -1)-verifParam("c.cali_tc_state.rule_ids", -1))
	verifAssert("state/go-mirror-covers-c-struct", int(unsafe.Sizeof(s)) >= verifParam("c.sizeof.cali_tc_state", 1<<30))
}
