package nat

import (
	"encoding/binary"
	"net"

	"github.com/projectcalico/calico/felix/ip"
)

// C13: NAT frontend key / value, backend key / value encoders and decoders against the C structs
// calico_nat_key, calico_nat_value, calico_nat_secondary_key, calico_nat_dest (IPv4 build: c.*,
// IPv6 build: c6.*).  Every field is a free value written through the Go constructors and read
// back at the C offset (and through the Go accessors).

func cOff(param string) int { return verifParam(param, -1) }

func vEqAt(b []byte, off int, want []byte) bool {
	ok := off >= 0 && off+len(want) <= len(b)
	for i := 0; ok && i < len(want); i++ {
		ok = b[off+i] == want[i]
	}
	return ok
}

func VerifHarness_C13_natkey4() {
	addr, src := verifBytes("addr", 4), verifBytes("src", 4)
	port, proto := verifU16("port"), verifU8("proto")
	plen := verifChoose("srcplen", 33)
	var sa ip.V4Addr
	copy(sa[:], src)
	cidr := ip.CIDRFromAddrAndPrefix(sa, plen)
	k := NewNATKeySrc(net.IP(addr), port, proto, cidr)
	b := k.AsBytes()
	verifAssert("natkey4/size", len(b) == cOff("c.sizeof.calico_nat_key"))
	verifAssert("natkey4/addr", vEqAt(b, cOff("c.calico_nat_key.addr"), addr))
	o := cOff("c.calico_nat_key.port")
	verifAssert("natkey4/port", binary.LittleEndian.Uint16(b[o:o+2]) == port)
	verifAssert("natkey4/protocol", b[cOff("c.calico_nat_key.protocol")] == proto)
	verifAssert("natkey4/saddr", vEqAt(b, cOff("c.calico_nat_key.saddr"), cidr.Addr().AsNetIP().To4()))
	verifAssert("natkey4/pad-zero", b[cOff("c.calico_nat_key.pad")] == 0)
	// LPM prefix: everything between prefixlen and saddr is matched exactly, then plen bits of saddr
	fixedBits := (cOff("c.calico_nat_key.saddr") - cOff("c.calico_nat_key.addr")) * 8
	o = cOff("c.calico_nat_key.prefixlen")
	verifAssert("natkey4/prefixlen", binary.LittleEndian.Uint32(b[o:o+4]) == uint32(fixedBits+plen))
	verifAssert("natkey4/decode", k.Proto() == proto && k.Port() == port && k.Addr().Equal(net.IP(addr)) && k.SrcPrefixLen() == uint32(plen) && k.SrcCIDR() == cidr)
}

func VerifHarness_C13_natkey6() {
	addr, src := verifBytes("addr", 16), verifBytes("src", 16)
	port, proto := verifU16("port"), verifU8("proto")
	plen := verifParam("PLEN0", 0) + verifChoose("srcplen", verifParam("NPLEN", 129))
	var sa ip.V6Addr // (not via net.IP: a v4-mapped pattern would come back as an IPv4 address)
	copy(sa[:], src)
	cidr := ip.CIDRFromAddrAndPrefix(sa, plen)
	k := NewNATKeyV6Src(net.IP(addr), port, proto, cidr)
	b := k.AsBytes()
	verifAssert("natkey6/size", len(b) == cOff("c6.sizeof.calico_nat_key"))
	verifAssert("natkey6/addr", vEqAt(b, cOff("c6.calico_nat_key.addr"), addr))
	o := cOff("c6.calico_nat_key.port")
	verifAssert("natkey6/port", binary.LittleEndian.Uint16(b[o:o+2]) == port)
	verifAssert("natkey6/protocol", b[cOff("c6.calico_nat_key.protocol")] == proto)
	verifAssert("natkey6/saddr", vEqAt(b, cOff("c6.calico_nat_key.saddr"), cidr.Addr().AsNetIP().To16()))
	verifAssert("natkey6/pad-zero", b[cOff("c6.calico_nat_key.pad")] == 0)
	fixedBits := (cOff("c6.calico_nat_key.saddr") - cOff("c6.calico_nat_key.addr")) * 8
	o = cOff("c6.calico_nat_key.prefixlen")
	verifAssert("natkey6/prefixlen", binary.LittleEndian.Uint32(b[o:o+4]) == uint32(fixedBits+plen))
	verifAssert("natkey6/decode", k.Proto() == proto && k.Port() == port && k.Addr().Equal(net.IP(addr)) && k.SrcPrefixLen() == uint32(plen) && k.SrcCIDR() == cidr)
}

func VerifHarness_C13_natvalues() {
	id, count, local, aff, flags := verifU32("id"), verifU32("count"), verifU32("local"), verifU32("aff"), verifU32("flags")
	v := NewNATValueWithFlags(id, count, local, aff, flags)
	b := v.AsBytes()
	le32 := func(b []byte, o int) uint32 { return binary.LittleEndian.Uint32(b[o : o+4]) }
	for _, pfx := range []string{"c", "c6"} {
		verifAssert("natvalue/size", len(b) == cOff(pfx+".sizeof.calico_nat_value"))
		verifAssert("natvalue/fields", le32(b, cOff(pfx+".calico_nat_value.id")) == id && le32(b, cOff(pfx+".calico_nat_value.count")) == count &&
			le32(b, cOff(pfx+".calico_nat_value.local")) == local && le32(b, cOff(pfx+".calico_nat_value.affinity_timeo")) == aff &&
			le32(b, cOff(pfx+".calico_nat_value.flags")) == flags)
	}
	verifAssert("natvalue/decode", v.ID() == id && v.Count() == count && v.LocalCount() == local && v.Flags() == flags)

	ord := verifU32("ordinal")
	bk := NewNATBackendKey(id, ord)
	bb := bk.AsBytes()
	verifAssert("natbackendkey/size", len(bb) == cOff("c.sizeof.calico_nat_secondary_key") && len(bb) == cOff("c6.sizeof.calico_nat_secondary_key"))
	verifAssert("natbackendkey/fields", le32(bb, cOff("c.calico_nat_secondary_key.id")) == id && le32(bb, cOff("c.calico_nat_secondary_key.ordinal")) == ord)

	a4, a6, port := verifBytes("a4", 4), verifBytes("a6", 16), verifU16("bport")
	d4 := NewNATBackendValue(net.IP(a4), port).AsBytes()
	verifAssert("natdest4/size", len(d4) == cOff("c.sizeof.calico_nat_dest"))
	o := cOff("c.calico_nat_dest.port")
	verifAssert("natdest4/fields", vEqAt(d4, cOff("c.calico_nat_dest.addr"), a4) && binary.LittleEndian.Uint16(d4[o:o+2]) == port)
	d6 := NewNATBackendValueV6(net.IP(a6), port).AsBytes()
	verifAssert("natdest6/size", len(d6) == cOff("c6.sizeof.calico_nat_dest"))
	o = cOff("c6.calico_nat_dest.port")
	verifAssert("natdest6/fields", vEqAt(d6, cOff("c6.calico_nat_dest.addr"), a6) && binary.LittleEndian.Uint16(d6[o:o+2]) == port)
}
