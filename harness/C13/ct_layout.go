package v4

import (
	"encoding/binary"
	"net"
	"time"
)

// C13: the Go encoders/decoders of the conntrack key and value agree with struct calico_ct_key /
// struct calico_ct_value as laid out by clang.  Every field is a free value: it is written through
// the Go API and read back at the C offset with the C width and byte order (and vice versa), so a
// right offset with a wrong width or byte order is caught.

func cOff(param string) int { return verifParam(param, -1) }

func VerifHarness_C13_ctkey() {
	proto := verifU8("proto")
	a, b := verifBytes("ipA", 4), verifBytes("ipB", 4)
	pa, pb := verifU16("portA"), verifU16("portB")
	k := NewKey(proto, net.IP(a), pa, net.IP(b), pb)
	verifAssert("key/size", len(k) == cOff("c.sizeof.calico_ct_key"))
	o := cOff("c.calico_ct_key.protocol")
	verifAssert("key/protocol", binary.LittleEndian.Uint32(k[o:o+4]) == uint32(proto))
	o = cOff("c.calico_ct_key.addr_a")
	verifAssert("key/addr_a", k[o] == a[0] && k[o+1] == a[1] && k[o+2] == a[2] && k[o+3] == a[3])
	o = cOff("c.calico_ct_key.addr_b")
	verifAssert("key/addr_b", k[o] == b[0] && k[o+1] == b[1] && k[o+2] == b[2] && k[o+3] == b[3])
	o = cOff("c.calico_ct_key.port_a")
	verifAssert("key/port_a", binary.LittleEndian.Uint16(k[o:o+2]) == pa)
	o = cOff("c.calico_ct_key.port_b")
	verifAssert("key/port_b", binary.LittleEndian.Uint16(k[o:o+2]) == pb)
	verifAssert("key/decode", k.Proto() == proto && k.PortA() == pa && k.PortB() == pb)
}

func VerifHarness_C13_ctvalue() {
	var v Value
	copy(v[:], verifBytes("v", ValueSize))
	verifAssert("value/size", ValueSize == cOff("c.sizeof.calico_ct_value"))
	le64 := func(o int) int64 { return int64(binary.LittleEndian.Uint64(v[o : o+8])) }
	verifAssert("value/rst_seen", v.RSTSeen() == le64(cOff("c.calico_ct_value.rst_seen")))
	verifAssert("value/last_seen", v.LastSeen() == le64(cOff("c.calico_ct_value.last_seen")))
	verifAssert("value/type", v.Type() == v[cOff("c.calico_ct_value.type")])
	f := uint32(v[cOff("c.calico_ct_value.flags")]) | uint32(v[cOff("c.calico_ct_value.flags2")])<<8 |
		uint32(v[cOff("c.calico_ct_value.flags3")])<<16 | uint32(v[cOff("c.calico_ct_value.flags4")])<<24
	verifAssert("value/flags", v.Flags() == f)
	d := v.Data()
	legBits := func(field string) uint32 {
		o := cOff("c.calico_ct_value." + field + ".syn_seen")
		return binary.LittleEndian.Uint32(v[o : o+4])
	}
	ab, ba := legBits("a_to_b"), legBits("b_to_a")
	bit := func(w uint32, leg, name string) bool {
		return w&(1<<uint(cOff("c.calico_ct_value."+leg+"."+name+".bit"))) != 0
	}
	verifAssert("value/a_to_b.bits", d.A2B.SynSeen == bit(ab, "a_to_b", "syn_seen") && d.A2B.AckSeen == bit(ab, "a_to_b", "ack_seen") &&
		d.A2B.FinSeen == bit(ab, "a_to_b", "fin_seen") && d.A2B.RstSeen == bit(ab, "a_to_b", "rst_seen") &&
		d.A2B.Approved == bit(ab, "a_to_b", "approved") && d.A2B.Opener == bit(ab, "a_to_b", "opener") && d.A2B.Workload == bit(ab, "a_to_b", "workload"))
	verifAssert("value/b_to_a.bits", d.B2A.SynSeen == bit(ba, "b_to_a", "syn_seen") && d.B2A.AckSeen == bit(ba, "b_to_a", "ack_seen") &&
		d.B2A.FinSeen == bit(ba, "b_to_a", "fin_seen") && d.B2A.RstSeen == bit(ba, "b_to_a", "rst_seen"))
	o := cOff("c.calico_ct_value.a_to_b.bytes")
	verifAssert("value/a_to_b.bytes", d.A2B.Bytes == binary.LittleEndian.Uint64(v[o:o+8]))
	o = cOff("c.calico_ct_value.a_to_b.packets")
	verifAssert("value/a_to_b.packets", d.A2B.Packets == binary.LittleEndian.Uint32(v[o:o+4]))
	o = cOff("c.calico_ct_value.b_to_a.ifindex")
	verifAssert("value/b_to_a.ifindex", d.B2A.Ifindex == binary.LittleEndian.Uint32(v[o:o+4]))
	o = cOff("c.calico_ct_value.orig_port")
	verifAssert("value/orig_port", v.OrigPort() == binary.LittleEndian.Uint16(v[o:o+2]))
	o = cOff("c.calico_ct_value.orig_sport")
	verifAssert("value/orig_sport", v.OrigSPort() == binary.LittleEndian.Uint16(v[o:o+2]))
	o = cOff("c.calico_ct_value.nat_sport")
	verifAssert("value/nat_sport", v.NATSPort() == binary.LittleEndian.Uint16(v[o:o+2]))
	o = cOff("c.calico_ct_value.orig_ip")
	ip := v.OrigIP()
	verifAssert("value/orig_ip", len(ip) == 4 && ip[0] == v[o] && ip[3] == v[o+3])
	// the reverse key of a forward-NAT entry is a calico_ct_key at nat_rev_key
	o = cOff("c.calico_ct_value.nat_rev_key")
	rk := v.ReverseNATKey().AsBytes()
	same := len(rk) == cOff("c.sizeof.calico_ct_key")
	for i := 0; same && i < len(rk); i++ {
		same = rk[i] == v[o+i]
	}
	verifAssert("value/nat_rev_key", same)
	// encoder: NewValueNormal writes last_seen and flags where C reads them
	ls := verifI64("ls")
	fl := verifU32("fl")
	nv := NewValueNormal(time.Duration(ls), fl, Leg{}, Leg{})
	o = cOff("c.calico_ct_value.last_seen")
	verifAssert("encode/last_seen", int64(binary.LittleEndian.Uint64(nv[o:o+8])) == ls)
	verifAssert("encode/flags", nv.Flags() == fl && nv[cOff("c.calico_ct_value.flags")] == uint8(fl) && nv[cOff("c.calico_ct_value.flags2")] == uint8(fl>>8))
	verifAssert("encode/type", nv[cOff("c.calico_ct_value.type")] == TypeNormal)
}
